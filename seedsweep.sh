#!/bin/bash
# Runs every quick check under several VERIF_SEED values on the current tree; any non-zero exit is reported.
# (flakiness / false-alarm screen; evidence goes to a scratch directory)
cd "$(dirname "$0")"
export VERIF_EVIDENCE_DIR=/verif/out/scratch-evidence
SEEDS="${*:-2 3 5 7 11 13 17 99 12345 4294967295}"
bad=0
for s in $SEEDS; do
  for id in $(python3 -c "import json; print(' '.join(c['property_id'] for c in json.load(open('MANIFEST.json'))['checks']))"); do
    out=$(VERIF_SEED=$s ./check $id quick 2>&1); rc=$?
    if [ $rc -ne 0 ]; then bad=1; echo "seed=$s $id rc=$rc"; echo "$out" | grep -E "VIOLATION|INCONCLUSIVE|signature|message" | head -5; fi
  done
  echo "seed $s done"
done
exit $bad
