#![no_main]
use libfuzzer_sys::fuzz_target;

fuzz_target!(|data: &[u8]| {
    hpo_verif::fuzzdec::fuzz_entry("numeric", data);
});
