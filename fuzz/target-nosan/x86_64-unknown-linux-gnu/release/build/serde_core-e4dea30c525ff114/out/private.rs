#[doc(hidden)]
pub mod __private229 {
    #[doc(hidden)]
    pub use crate::private::*;
}
