#[doc(hidden)]
pub mod __private229 {
    #[doc(hidden)]
    pub use crate::private::*;
}
use serde_core::__private229 as serde_core_private;
