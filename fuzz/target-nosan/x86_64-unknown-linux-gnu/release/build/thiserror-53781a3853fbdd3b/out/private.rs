#[doc(hidden)]
pub mod __private20 {
    #[doc(hidden)]
    pub use crate::private::*;
}
