#!/bin/bash
# Runs every registered check of one tier on the current tree and validates manifest + evidence.
TIER=${1:-quick}
cd "$(dirname "$0")"
fail=0
for id in $(python3 -c "import json; print(' '.join(c['property_id'] for c in json.load(open('MANIFEST.json'))['checks']))"); do
  s=$(date +%s.%N)
  out=$(./check $id $TIER 2>&1); rc=$?
  e=$(date +%s.%N)
  printf "%s rc=%d %.1fs  %s\n" $id $rc $(echo "$e - $s" | bc) "$(echo "$out" | grep -E "^$id " | tail -1)"
  if [ $rc -ne 0 ]; then fail=1; echo "$out" | grep -E "VIOLATION|INCONCLUSIVE|signature|message" | head -8; fi
done
./validate.sh | tail -1
exit $fail
