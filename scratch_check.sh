#!/bin/bash
# scratch_check.sh <crate dir> <ID> [tier]
# Runs the check of one property against a COPY of the hpo crate (a scratch worktree with a mutant
# or seeded change applied) without touching /repo: the harness sources are copied to /tmp/hpo_eval,
# their path dependency is pointed at <crate dir>, and the binary runs with VERIF_ROOT=/verif (replays,
# known findings) and a scratch evidence directory. Used by the sensitivity scripts only; registered
# checks always build against /repo.
set -u
CRATE="$(realpath "$1")"; ID="$2"; TIER="${3:-quick}"
W=${HPO_EVAL_DIR:-/tmp/hpo_eval}
mkdir -p $W
rsync -a --delete --exclude target /verif/harness/ $W/harness/
sed -i "s#hpo = { path = \"/repo\" }#hpo = { path = \"$CRATE\" }#" $W/harness/Cargo.toml
export CARGO_NET_OFFLINE=true CARGO_TARGET_DIR=$W/target
(cd $W/harness && cargo build --release --offline >$W/build.log 2>&1) || { echo "INCONCLUSIVE: build failed"; grep -E "^error" -A6 $W/build.log | head -20; exit 2; }
VERIF_ROOT=/verif VERIF_EVIDENCE_DIR=/verif/out/scratch-evidence timeout --signal=KILL ${VERIF_WATCHDOG_S:-900} $W/target/release/hpo_verif "$ID" "$TIER"
rc=$?
if [ $rc -gt 2 ]; then echo "INCONCLUSIVE: status $rc"; exit 2; fi
exit $rc
