#!/bin/bash
# Builds the harness (and, if present, the fuzz targets) offline from files on disk only.
set -e
cd "$(dirname "$0")"
export CARGO_NET_OFFLINE=true
export CARGO_TARGET_DIR="$(pwd)/target"
(cd harness && cargo build --release --offline)
# fuzz targets (thorough tier only): ASan build for termid/group, plain build for decode/facts
if [ -f fuzz/Cargo.toml ]; then
  unset CARGO_TARGET_DIR
  (cd harness && cargo +nightly fuzz build -O --fuzz-dir "$OLDPWD/fuzz" --target-dir "$OLDPWD/fuzz/target" 2>&1 | tail -1) || echo "fuzz (asan) build failed: thorough fuzz campaigns will be inconclusive" >&2
  (cd harness && cargo +nightly fuzz build -O -s none --fuzz-dir "$OLDPWD/fuzz" --target-dir "$OLDPWD/fuzz/target-nosan" 2>&1 | tail -1) || echo "fuzz (plain) build failed: thorough fuzz campaigns will be inconclusive" >&2
fi
