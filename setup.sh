#!/bin/bash
# Builds the harness (and, if present, the fuzz targets) offline from files on disk only.
set -e
cd "$(dirname "$0")"
export CARGO_NET_OFFLINE=true
export CARGO_TARGET_DIR="$(pwd)/target"
(cd harness && cargo build --release --offline)
if [ -d fuzz ] && [ -f fuzz/Cargo.toml ]; then
  (cd fuzz && cargo +nightly fuzz build -O 2>&1 | tail -3) || echo "fuzz build failed (thorough tier fuzz campaigns will be inconclusive)" >&2
fi
