NOT_CLAIMED = {}
FUZZ_PROPS = []
NOTES = "Property-based testing / fuzzing only. Exit 0 held, 1 VIOLATION, 2 inconclusive. VERIF_SEED selects the PRNG seeds; work per tier is fixed (case counts, not time)."

add("C01", "exploration", "property-based testing (proptest): generated DAG facts x construction paths vs BFS closure reference model",
    "Search over generated acyclic graphs, id assignments, supply orders and construction paths against an independent transitive-closure model; all ordered pairs for child_of/parent_of. Finds counterexamples, does not prove absence.",
    "Trusts the reference model (BFS closure, ~40 lines) and the own binary encoder / JAX renderer; bounds: <=24 terms quick, <=90 thorough.",
    "DESIGN.md section 4, C01")

add("C02", "exploration", "property-based testing (proptest): generated annotation facts x construction paths vs set-union inheritance model",
    "Search over generated graphs and annotation fact sets (shared id pool across kinds, links on inner nodes and on ancestor/descendant chains, repeated facts, empty records, shuffled call order) through every construction path against inheritance computed on the model closure.",
    "Trusts the reference model and own encoder/renderer; bounds: <=20 terms quick / 70 thorough, <=8 records per kind.",
    "DESIGN.md section 4, C02")
add("C03", "exploration", "property-based testing (proptest): IC vs -ln(n/N) in f64, exact range and monotonicity checks",
    "Search over generated ontologies with different totals per kind; value compared with an f64 reference within 1e-5, zero rule, finiteness, non-negativity and ancestor->descendant monotonicity checked exactly.",
    "f32 vs f64 tolerance 1e-5 relative; bounds as C02 with <=10 records per kind.",
    "DESIGN.md section 4, C03")
add("C20", "exploration", "exhaustive enumeration of the 10^7 id space + property-based string generation vs reference parser",
    "The id <-> text/bytes bijection is enumerated completely for all 10^7 ids (plus borders); parsing of arbitrary text is searched with structured string generators against a hand-written reference grammar, panics are failures.",
    "Reference grammar = Rust u32 FromStr grammar after the 3-byte prefix; string space sampled, not exhausted.",
    "DESIGN.md section 4, C20")
