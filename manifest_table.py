NOT_CLAIMED = {}
FUZZ_PROPS = ["C%02d" % i for i in range(1, 21)]
NOTES = "Property-based testing / fuzzing only. Exit 0 held, 1 VIOLATION, 2 inconclusive. VERIF_SEED selects the PRNG seeds; work per tier is fixed (case counts, not time)."

add("C01", "exploration", "property-based testing (proptest): generated DAG facts x construction paths vs BFS closure reference model",
    "Search over generated acyclic graphs, id assignments, supply orders and construction paths against an independent transitive-closure model; all ordered pairs for child_of/parent_of. Finds counterexamples, does not prove absence.",
    "Trusts the reference model (BFS closure, ~40 lines) and the own binary encoder / JAX renderer; bounds: <=24 terms quick, <=90 thorough.",
    "DESIGN.md section 4, C01")

add("C02", "exploration", "property-based testing (proptest): generated annotation facts x construction paths vs set-union inheritance model",
    "Search over generated graphs and annotation fact sets (shared id pool across kinds, links on inner nodes and on ancestor/descendant chains, repeated facts, empty records, shuffled call order) through every construction path against inheritance computed on the model closure.",
    "Trusts the reference model and own encoder/renderer; bounds: <=20 terms quick / 70 thorough, <=8 records per kind.",
    "DESIGN.md section 4, C02")
add("C03", "exploration", "property-based testing (proptest): IC vs -ln(n/N) in f64, exact range and monotonicity checks",
    "Search over generated ontologies with different totals per kind; value compared with an f64 reference within 1e-5, zero rule, finiteness, non-negativity and ancestor->descendant monotonicity checked exactly.",
    "f32 vs f64 tolerance 1e-5 relative; bounds as C02 with <=10 records per kind.",
    "DESIGN.md section 4, C03")
add("C20", "exploration", "exhaustive enumeration of the 10^7 id space + property-based string generation vs reference parser",
    "The id <-> text/bytes bijection is enumerated completely for all 10^7 ids (plus borders); parsing of arbitrary text is searched with structured string generators against a hand-written reference grammar, panics are failures.",
    "Reference grammar = Rust u32 FromStr grammar after the 3-byte prefix; string space sampled, not exhausted.",
    "DESIGN.md section 4, C20")

add("C04", "exploration", "property-based testing (proptest): all ordered term pairs x 8 algorithms x 3 kinds vs formulas evaluated in f64 on the reference model",
    "Search over generated annotated ontologies; every ordered pair, algorithm and kind is compared with the documented formula computed from model quantities; NaN/range/dispatch/symmetry checked exactly or within stated tolerance.",
    "Formula conventions pinned in DESIGN.md section 3 (GraphIC union without the terms, JC 0.8.3); tolerance 1e-4 relative; <=12 terms quick / 20 thorough.",
    "DESIGN.md section 4, C04")
add("C05", "exploration", "property-based testing (proptest): generated matrices / set pairs with a table-lookup user similarity vs funSimAvg/funSimMax/BMA definitions; cache differential",
    "Search over generated (also non-square, empty, 1x40) matrices and over sequences of set pairs with asymmetric user-supplied similarities; cached vs uncached results compared bit for bit.",
    "Definitions evaluated in f64, tolerance 1e-4; sets of <=8 terms over a flat 16-term ontology.",
    "DESIGN.md section 4, C05")
add("C10", "exploration", "property-based testing (proptest) + full id-space sweeps of generated ontologies vs set membership model",
    "Search over generated id sets (dense/sparse/borders, duplicates) with targeted keys, and complete sweeps of all 10^7 ids plus 2^20 larger values on a generated fraction of the cases (>=16 ontologies per quick run); name lookups against string predicates on the facts.",
    "Ids >= 10^7 cannot be added and are lookup keys only; <=20 terms quick / 60 thorough, <=6 records per kind.",
    "DESIGN.md section 4, C10")
add("C11", "exploration", "property-based testing (proptest): all ordered pairs of generated DAGs vs BFS distances and a path validity predicate",
    "Search over generated graphs biased to chains with shortcuts, diamond ladders, several roots; distances compared with BFS reference, paths checked by a validity predicate (links, end point, length) so that ties are not misjudged.",
    "Graphs of <=16 terms quick / 22 thorough (the library's recursive search is exponential on ladders). Lineages of more than 270 (thorough 600) links are not asked for distances or paths by this check - the per-pair cost of the library grows too fast - so a slip confined to deeper lineages is only seen through the ancestor sets that C01 checks on 5 000-link lineages (DESIGN.md section 12, round 22, C11r22).",
    "DESIGN.md section 4, C11")
add("C12", "exploration", "stateful property-based testing (proptest op sequences) vs BTreeSet model; set-algebra differential for operators and ancestor queries",
    "Operation sequences and operand pairs of all relationship classes across the inline-storage limit, every constructor and ownership variant, compared with BTreeSet; ancestor queries of all term pairs compared with set algebra on the model closure.",
    "all_union_* convention pinned to the doctests; ids from a 96-entry pool incl. u32 borders.",
    "DESIGN.md section 4, C12")

add("C06", "exploration", "property-based testing (proptest): generated backgrounds/samples and k-sweeps vs exact big-integer hypergeometric tails",
    "Search over generated backgrounds and samples on a fixed 441-term ontology with 90 records whose K spans 1..420 (both sides of the 170-entry factorial table); every (record, N, K, n, k) tuple is compared with the exact rational tail, fold change, count and record set; range and monotonicity in k exact.",
    "Exact tail from a Pascal triangle over u32-limb integers (about 100 lines, unit-tested against Python fractions); tolerance 1e-9 relative.",
    "DESIGN.md section 4, C06")

add("C07", "exploration", "property-based testing (proptest): as_bytes/from_bytes round trip compared through the whole read API; differential against from_binary and Ontology::compare",
    "Search over generated ontologies (long and multi-byte names around the 255-byte limit, obsolete/replaced terms, empty sections, records without terms, maximal ids) built through three public constructors; the reloaded ontology must be observationally identical up to the documented name limit, a second round trip a fixed point.",
    "Name expectation: longest <=255-byte prefix on a char boundary; <=14 terms quick / 40 thorough.",
    "DESIGN.md section 4, C07")
add("C08", "fault_enumeration", "independent encoder + property-based generation (proptest); per file every truncation offset, a fixed set of extensions and all 254 unsupported version bytes are decoded",
    "Exploration: files written by an encoder independent of the library's writer must decode to exactly the described ontology. Fault enumeration: for each generated file all prefixes, 8 extensions and every unsupported version byte are tried and must be rejected.",
    "Own encoder implements the documented layout tables; files <= ~2 kB so all prefixes can be decoded; rejection = Err or documented panic.",
    "DESIGN.md section 4, C08")
add("C09", "exploration", "property-based testing (proptest): grammar-based rendering of the three JAX files with ignorable noise; three-way differential (reference model, binary loader, Builder API)",
    "Search over generated fact sets rendered into hp.obo / phenotype.hpoa / genes_to_phenotype.txt / phenotype_to_genes.txt with noise that must be ignored (NOT rows, DECIPHER, comments, Typedef stanzas, extra tags and columns), loaded by both loaders and compared through the whole read API.",
    "Input domain restricted to what the parser documents/expects (one blank line between stanzas, 'tag: value' lines, header line in gene files).",
    "DESIGN.md section 4, C09")
add("C19", "exploration", "property-based testing (proptest): generated standard-flavour ontologies vs classification computed on the reference closure; missing-root variants",
    "Search over generated ontologies with several top-level branches, multi-category terms and missing roots through every construction path that applies defaults.",
    "<=22 terms quick / 70 thorough.",
    "DESIGN.md section 4, C19")

add("C15", "exploration", "stateful property-based testing (proptest call histories + interpreter model); metamorphic check 'drop the failing calls'",
    "Generated Builder call histories with 20-50 % failing calls; an interpreter over plain sets predicts every return value; the built ontology is walked through the whole read API under catch_unwind and compared with the reference model of the successful calls and with the ontology built from the successful calls alone.",
    "Present parent links acyclic by construction; <=12 distinct terms quick / 30 thorough, <=30 add_parent and <=30 annotation calls.",
    "DESIGN.md section 4, C15")
add("C16", "exploration", "metamorphic property-based testing (proptest): same facts, two generated supply orders, every construction path; cross-path differential",
    "Search over fact sets and pairs of supply orders (Builder calls, binary records, text stanzas and rows); complete sorted read-API snapshots must be equal within a path and across paths that can express the facts.",
    "One name per id / one replacement per term; <=18 terms quick / 60 thorough.",
    "DESIGN.md section 4, C16")

add("C13", "exploration", "property-based testing (proptest): generated ontologies and member sets vs set algebra on the reference model; in-place vs copying differential",
    "Search over ontologies with obsolete, replaced and modifier terms and arbitrary member sets; every HpoSet operation compared with its definition on the model, in-place against copying variants.",
    "Replacements name existing terms; <=18 terms quick / 50 thorough, <=12 members.",
    "DESIGN.md section 4, C13")
add("C14", "exploration", "property-based testing (proptest): generated root/leaf requests vs validity predicate (shortest chains) and reference model of the restricted facts",
    "Search over source ontologies, roots and leaf collections incl. the error class; the retained term set is validated (every term on a shortest leaf-root chain), everything else is predicted from the restricted facts and compared through the whole read API.",
    "Tie-breaking between equally short chains is not predicted; <=18 terms quick / 50 thorough.",
    "DESIGN.md section 4, C14")
add("C18", "exploration", "property-based testing (proptest): base facts + generated edit scripts vs diff computed on the facts; mirror and self/round-trip metamorphic checks",
    "Search over pairs of ontologies that differ by 0-4 edits of 15 kinds; all Comparison / HpoTermDelta / AnnotationDelta accessors compared with the difference of the fact sets; swapped arguments, self comparison and round trip.",
    "Replacement means the stored replacement id; <=12 terms quick / 40 thorough.",
    "DESIGN.md section 4, C18")

add("C17", "exploration", "property-based testing (proptest): generated distance tables / content-based distances x 4 linkage methods vs a dendrogram validity predicate simulated along the library's merges",
    "Search over input counts, distance tables (distinct and tie-rich) and all four methods; the dendrogram is validated merge by merge (live operands, exact current distance, no closer pair, method-specific update, sizes, leaf order, iterator agreement, callback pairs) so that ties never cause a false alarm.",
    "Distances finite and symmetric; n <= 12 quick / 40 thorough over a flat 96-term ontology.",
    "DESIGN.md section 4, C17")
