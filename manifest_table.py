NOT_CLAIMED = {}
FUZZ_PROPS = []
NOTES = "Property-based testing / fuzzing only. Exit 0 held, 1 VIOLATION, 2 inconclusive. VERIF_SEED selects the PRNG seeds; work per tier is fixed (case counts, not time)."

add("C01", "exploration", "property-based testing (proptest): generated DAG facts x construction paths vs BFS closure reference model",
    "Search over generated acyclic graphs, id assignments, supply orders and construction paths against an independent transitive-closure model; all ordered pairs for child_of/parent_of. Finds counterexamples, does not prove absence.",
    "Trusts the reference model (BFS closure, ~40 lines) and the own binary encoder / JAX renderer; bounds: <=24 terms quick, <=90 thorough.",
    "DESIGN.md section 4, C01")
