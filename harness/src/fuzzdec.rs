//! Byte-level front end for the coverage-guided fuzz targets (thorough tier).
//! Bytes are decoded into the same case types the proptest strategies
//! produce and are checked by the same oracle functions; a failure is written
//! as a replay file exactly like a shrunk proptest failure.

use crate::gen::{self, GenCfg, NameMode, RawFacts, RawNode, RawRec};
use crate::props::common::{OntCase, PathSel};
use crate::props::{c01, c02, c03, c04, c05, c06, c07, c08, c09, c10, c11, c12, c13, c14, c15, c16, c17, c18, c19, c20};
use crate::model::Model;
use crate::runner::{Failure, Stats};
use serde_json::{json, Value};
use std::sync::Once;

/// Minimal structured reader; returns zeros when the input is exhausted.
pub struct Reader<'a> {
    d: &'a [u8],
    i: usize,
}
impl<'a> Reader<'a> {
    pub fn new(d: &'a [u8]) -> Self {
        Reader { d, i: 0 }
    }
    pub fn u8(&mut self) -> u8 {
        let v = self.d.get(self.i).copied().unwrap_or(0);
        self.i += 1;
        v
    }
    pub fn u16(&mut self) -> u16 {
        u16::from(self.u8()) << 8 | u16::from(self.u8())
    }
    pub fn u32(&mut self) -> u32 {
        u32::from(self.u16()) << 16 | u32::from(self.u16())
    }
    pub fn bool(&mut self) -> bool {
        self.u8() & 1 == 1
    }
    pub fn below(&mut self, n: usize) -> usize {
        if n == 0 {
            0
        } else {
            self.u8() as usize % n
        }
    }
    pub fn name(&mut self) -> String {
        const POOL: [&str; 12] = ["", "A", "Abnormality of x", "é", "name: with colon", "€uro", "😀", "gene1", "B b", "ß", "All", "x: y: z"];
        let b = self.u8();
        if b < 200 {
            POOL[b as usize % POOL.len()].to_string()
        } else {
            let n = self.below(6);
            (0..n).map(|_| char::from(b'a' + self.u8() % 26)).collect()
        }
    }
    pub fn exhausted(&self) -> bool {
        self.i >= self.d.len()
    }
}

pub fn raw_facts(r: &mut Reader, cfg: &GenCfg) -> RawFacts {
    let shape = r.u8() % 8;
    let id_mode = r.u8() % 4;
    let n = cfg.min_terms + r.below(cfg.max_terms - cfg.min_terms + 1);
    let mut nodes = Vec::new();
    for _ in 0..n {
        let nparents = [0u8, 1, 1, 1, 1, 2, 2, 3][r.below(8)];
        let picks = [r.u16(), r.u16(), r.u16()];
        let idr = r.u32();
        let name = r.name();
        let flags = r.u8();
        nodes.push(RawNode {
            nparents,
            picks,
            idr,
            name,
            obsolete: cfg.flags && flags & 1 == 1,
            repl: if cfg.flags && flags & 2 == 2 { Some(((flags >> 2) % if cfg.dangling_repl { 3 } else { 2 }, r.u16())) } else { None },
        });
    }
    let mut recs: [Vec<RawRec>; 3] = Default::default();
    for rk in recs.iter_mut() {
        let m = r.below(cfg.max_recs + 1);
        for _ in 0..m {
            let idr = r.u8();
            let name = r.name();
            let nl = if cfg.empty_recs { r.below(5) } else { 1 + r.below(4) };
            let links = (0..nl)
                .map(|_| {
                    let p = r.u16();
                    let rel = r.u8();
                    (p, if rel % 3 == 0 { Some((rel & 4 == 4, r.u16())) } else { None })
                })
                .collect();
            rk.push(RawRec { idr, name, links, explicit_add: r.u8() % 3 == 0 });
        }
    }
    let keys = (0..64).map(|_| r.u16()).collect();
    let dup_edges = (0..r.below(3)).map(|_| r.u16()).collect();
    let dup_calls = (0..r.below(3)).map(|_| r.u16()).collect();
    let dup_terms = (0..r.below(2)).map(|_| r.u16()).collect();
    RawFacts {
        shape,
        id_mode,
        nodes,
        version: (r.u16(), r.u8() % 13, r.u8() % 32),
        recs,
        keys,
        dup_edges,
        dup_calls,
        dup_terms,
        detach_118: r.u8() % 10 == 0,
    }
}

/// Decodes the bytes of one fuzz target into (property id, case JSON) pairs.
pub fn decode(target: &str, data: &[u8]) -> Vec<(&'static str, Value)> {
    let mut r = Reader::new(data);
    match target {
        "termid" => match std::str::from_utf8(data) {
            Ok(s) if s.len() <= 64 => vec![("C20", json!(s))],
            _ => vec![],
        },
        "group" => {
            if r.bool() {
                let width = [8usize, 40, c12::POOL_LEN][r.below(3)];
                let n = r.below(160);
                let ops: Vec<c12::Op> = (0..n)
                    .map(|_| match r.u8() % 10 {
                        0..=5 => c12::Op::Insert(c12::pool(r.below(width))),
                        6 => c12::Op::Contains(c12::pool(r.below(width))),
                        7 => c12::Op::Get(r.below(width + 2)),
                        8 => {
                            if r.u8() % 16 == 0 {
                                c12::Op::Clear
                            } else {
                                c12::Op::Snapshot
                            }
                        }
                        _ => c12::Op::Snapshot,
                    })
                    .collect();
                vec![("C12", serde_json::to_value(c12::Case::Ops { ops }).unwrap())]
            } else {
                let na = r.below(80);
                let a: Vec<u32> = (0..na).map(|_| c12::pool(r.below(c12::POOL_LEN))).collect();
                let nb = r.below(80);
                let b: Vec<u32> = (0..nb).map(|_| c12::pool(r.below(c12::POOL_LEN))).collect();
                let id = c12::pool(r.below(c12::POOL_LEN));
                let ctor = r.u8();
                vec![("C12", serde_json::to_value(c12::Case::Pair { a, b, id, ctor }).unwrap())]
            }
        }
        "decode" => {
            let cfg = GenCfg::small().terms(2, 6).recs(2).standard().with_flags(true).names(NameMode::Capped);
            let version = 1 + r.u8() % 3;
            let ns = 1 + r.below(8);
            let suffix: Vec<u8> = (0..ns).map(|_| r.u8()).collect();
            let raw = raw_facts(&mut r, &cfg);
            let facts = gen::realise(&raw, &cfg);
            vec![("C08", serde_json::to_value(c08::Case { facts, version, suffix, big: false }).unwrap())]
        }
        "facts" => {
            let cfg = GenCfg::small().terms(1, 14).recs(4);
            let raw = raw_facts(&mut r, &cfg);
            let facts = gen::realise(&raw, &cfg);
            let oc = serde_json::to_value(OntCase { facts: facts.clone(), path: PathSel::Builder, noise: Default::default() }).unwrap();
            let mut f11 = facts.clone();
            // C11 evaluates all pairs with a recursive search: keep it small
            f11.terms.truncate(12);
            let keep: std::collections::BTreeSet<u32> = f11.terms.iter().map(|t| t.id).collect();
            f11.edges.retain(|(c, p)| keep.contains(c) && keep.contains(p));
            f11.recs = Default::default();
            f11.ann_calls.clear();
            let mut f04 = facts.clone();
            f04.terms.truncate(9);
            let keep4: std::collections::BTreeSet<u32> = f04.terms.iter().map(|t| t.id).collect();
            f04.edges.retain(|(c, p)| keep4.contains(c) && keep4.contains(p));
            for k in 0..3 {
                for rec in f04.recs[k].iter_mut() {
                    rec.terms.retain(|t| keep4.contains(t));
                }
            }
            f04.ann_calls = f04.canonical_ann_calls();
            let keys: Vec<u32> = (0..r.below(6)).map(|_| r.u32()).collect();
            let queries: Vec<String> = (0..r.below(5)).map(|_| r.name()).collect();
            let c10 = c10::Case { facts: facts.clone(), path: PathSel::Builder, keys, queries, sweep: false };
            vec![
                ("C01", oc.clone()),
                ("C02", oc.clone()),
                ("C03", oc),
                ("C11", serde_json::to_value(f11).unwrap()),
                ("C04", serde_json::to_value(f04).unwrap()),
                ("C10", serde_json::to_value(c10).unwrap()),
            ]
        }
        // standard-flavour ontology + a selector byte: one property per execution
        "ont" => {
            let sel = r.u8() % 6;
            let std_cfg = |names: NameMode, flags: bool| GenCfg::small().terms(2, 14).recs(3).standard().with_flags(flags).names(names);
            match sel {
                0 => {
                    let rich = r.bool();
                    let cfg = std_cfg(if rich { NameMode::Rich } else { NameMode::Capped }, true);
                    let facts = gen::realise(&raw_facts(&mut r, &cfg), &cfg);
                    let path = if rich { PathSel::BuilderDefaults } else { PathSel::Bin(3) };
                    vec![("C07", serde_json::to_value(OntCase { facts, path, noise: Default::default() }).unwrap())]
                }
                1 => {
                    let cfg = std_cfg(NameMode::Plain, false);
                    let mut cfg2 = cfg.clone();
                    cfg2.flags = true;
                    let facts = gen::realise(&raw_facts(&mut r, &cfg2), &cfg2);
                    let ids: Vec<u32> = facts.terms.iter().map(|t| t.id).collect();
                    let n = r.below(40);
                    let members = (0..n).map(|_| ids[r.below(ids.len())]).collect();
                    vec![("C13", serde_json::to_value(c13::Case { facts, members, path: PathSel::Bin(3), ops: (0..r.below(7)).map(|_| (r.u8(), r.u16())).collect(), custom_modifier: if r.u8() % 5 == 0 { vec![r.u16(), r.u16()] } else { vec![] }, custom_categories: if r.u8() % 5 == 0 { vec![r.u16()] } else { vec![] } }).unwrap())]
                }
                2 => {
                    let cfg = std_cfg(NameMode::Capped, true);
                    let facts = gen::realise(&raw_facts(&mut r, &cfg), &cfg);
                    let m = Model::new(&facts);
                    let root = if r.bool() { 1 } else { m.ids[r.below(m.ids.len())] };
                    let mut inside: Vec<u32> = m.desc[m.i(root)].iter().copied().collect();
                    inside.push(root);
                    let nl = 1 + r.below(6);
                    let leaves = (0..nl).map(|_| if r.u8() % 10 == 0 { m.ids[r.below(m.ids.len())] } else { inside[r.below(inside.len())] }).collect();
                    vec![("C14", serde_json::to_value(c14::Case { facts, root, leaves, path: PathSel::Bin(3), custom_modifier: if r.u8() % 6 == 0 { vec![r.u16()] } else { vec![] } }).unwrap())]
                }
                3 => {
                    let cfg = std_cfg(NameMode::Capped, true);
                    let facts = gen::realise(&raw_facts(&mut r, &cfg), &cfg);
                    let path = [PathSel::BuilderDefaults, PathSel::Bin(1), PathSel::Bin(2), PathSel::Bin(3), PathSel::RoundTrip][r.below(5)];
                    let keys = (0..48).map(|_| r.u16()).collect();
                    vec![("C16", serde_json::to_value(c16::Case { base: OntCase { facts, path, noise: Default::default() }, keys, other_path: None }).unwrap())]
                }
                4 => {
                    let cfg = std_cfg(NameMode::Plain, true);
                    let facts = gen::realise(&raw_facts(&mut r, &cfg), &cfg);
                    let path = [PathSel::BuilderDefaults, PathSel::Bin(3), PathSel::Bin(1), PathSel::RoundTrip][r.below(4)];
                    let drop_roots = if r.u8() % 8 == 0 { 1 + r.u8() % 3 } else { 0 };
                    vec![("C19", serde_json::to_value(c19::Case { base: OntCase { facts, path, noise: Default::default() }, drop_roots, setters: if r.u8() % 3 == 0 { 1 + r.u8() % 7 } else { 0 } }).unwrap())]
                }
                _ => {
                    let mut cfg = std_cfg(NameMode::Capped, true);
                    cfg.empty_recs = false;
                    let facts = gen::realise(&raw_facts(&mut r, &cfg), &cfg);
                    let mut noise = crate::build::JaxNoise { gene_header: r.u8() % 2, typedefs: r.u8() % 3, comments: r.u8() % 3, extra_cols: r.bool(), explicit_false: r.bool(), hpoa_head: r.u8() % 4, eof: r.u8() % 3, long_lines: r.u8() % 16 == 0, ..Default::default() };
                    noise.extra_tags = (0..r.below(5)).map(|_| r.u8()).collect();
                    let path = if r.bool() { PathSel::Jax } else { PathSel::JaxT };
                    vec![("C09", serde_json::to_value(OntCase { facts, path, noise }).unwrap())]
                }
            }
        }
        // Builder call histories
        "history" => {
            let nt = 1 + r.below(10);
            let defaults = r.bool();
            let mut ids: Vec<u32> = if defaults { vec![1, 118] } else { vec![] };
            for i in 0..nt {
                let mut id = match r.u8() % 4 {
                    0 => i as u32 + 2,
                    1 => r.u32() % 10_000_000,
                    2 => [0u32, 9_999_999, 2, 3][i % 4],
                    _ => 100 + r.u8() as u32,
                };
                while ids.contains(&id) {
                    id = (id + 1) % 10_000_000;
                }
                ids.push(id);
            }
            let mut terms: Vec<(u32, String)> = ids.iter().map(|i| (*i, r.name())).collect();
            if r.u8() % 4 == 0 {
                let t = terms[r.below(terms.len())].clone();
                terms.push((t.0, format!("{}-again", t.1)));
            }
            let absent = |r: &mut Reader, ids: &Vec<u32>| -> u32 {
                let mut a = match r.u8() % 8 {
                    0 => 10_000_000 + u32::from(r.u8()),
                    1 => u32::MAX - u32::from(r.u8() % 7),
                    2 => 0,
                    3 => 9_999_999,
                    4 => 1 + u32::from(r.u8() % 3),
                    _ => r.u32() % 10_000_000,
                };
                while ids.contains(&a) {
                    a = a.wrapping_add(1);
                }
                a
            };
            let n = ids.len();
            let mut parents = Vec::new();
            for _ in 0..r.below(24) {
                let (x, y) = (r.below(n), r.below(n));
                match r.u8() % 10 {
                    0..=5 => {
                        if x != y {
                            parents.push((ids[x.min(y)], ids[x.max(y)]));
                        }
                    }
                    6 | 7 => parents.push((ids[x], absent(&mut r, &ids))),
                    8 => parents.push((absent(&mut r, &ids), ids[x])),
                    _ => parents.push((absent(&mut r, &ids), absent(&mut r, &ids))),
                }
            }
            let rec_names: Vec<String> = (0..6).map(|_| r.name()).collect();
            let mut ann = Vec::new();
            for _ in 0..r.below(24) {
                let kind = r.u8() % 3;
                let rec = r.below(6);
                let rec_id = [1u32, 2, 3, 7, u32::MAX, 0][rec];
                match r.u8() % 10 {
                    0..=5 => ann.push(c15::AnnOp { kind, rec: rec_id, name: rec_names[rec].clone(), term: Some(ids[r.below(n)]) }),
                    6 => ann.push(c15::AnnOp { kind, rec: rec_id, name: rec_names[rec].clone(), term: None }),
                    _ => ann.push(c15::AnnOp { kind, rec: rec_id, name: format!("{} (rejected call)", rec_names[rec]), term: Some(absent(&mut r, &ids)) }),
                }
            }
            let version = (r.u16() % 10000, r.u8(), r.u8());
            let version_at = r.u8() % 4;
            // (read last, so that older corpus files decode as before)
            let self_parent = if r.u8() % 8 == 1 { Some(ids[r.below(n)]) } else { None };
            let case = c15::Case { terms, parents, ann, version, version_at, defaults, self_parent, closing: None, at_limit: None };
            vec![("C15", serde_json::to_value(case).unwrap())]
        }
        // base facts + edit script
        "edits" => {
            let cfg = GenCfg::small().terms(2, 10).recs(3).standard().with_flags(true).names(NameMode::Capped);
            let old = gen::realise(&raw_facts(&mut r, &cfg), &cfg);
            let mut new = old.clone();
            let mut edits = Vec::new();
            for _ in 0..r.below(5) {
                let kind = r.below(c18::EDIT_KINDS.len());
                let p = [r.u16(), r.u16(), r.u16()];
                let name = r.name();
                if let Some(k) = c18::apply_edit(&mut new, kind, p, &name) {
                    edits.push(k.to_string());
                }
            }
            new.ann_calls = new.canonical_ann_calls();
            vec![("C18", serde_json::to_value(c18::Case { old, new, edits, path: PathSel::Bin(3) }).unwrap())]
        }
        // matrices, set similarities, clustering, enrichment
        "numeric" => match r.u8() % 4 {
            0 => {
                let (rows, cols) = (r.below(10), r.below(10));
                let vals: Vec<f32> = (0..8).map(|_| f32::from(r.u8() % 65) / 8.0 - 2.0).collect();
                let data = (0..rows * cols).map(|_| vals[r.below(8)]).collect();
                vec![("C05", serde_json::to_value(c05::Case::Matrix { rows, cols, data, scale_exp: 0 }).unwrap())]
            }
            1 => {
                let symmetric = r.bool();
                let mut table: Vec<f32> = (0..c05::NT * c05::NT).map(|_| f32::from(r.u8() % 65) / 8.0 - 2.0).collect();
                if symmetric {
                    for i in 0..c05::NT {
                        for j in 0..i {
                            table[i * c05::NT + j] = table[j * c05::NT + i];
                        }
                    }
                }
                let np = 1 + r.below(4);
                let pairs = (0..np)
                    .map(|_| {
                        let (na, nb) = (r.below(9), r.below(9));
                        ((0..na).map(|_| r.u8()).collect(), (0..nb).map(|_| r.u8()).collect())
                    })
                    .collect();
                vec![("C05", serde_json::to_value(c05::Case::Sets { table, pairs, scale_exp: 0 }).unwrap())]
            }
            2 => {
                let n = 2 + r.below(30);
                let method = r.u8() % 4;
                let coarse = r.u8() % 6 == 0;
                let mut next = 1u32;
                let mut sets: Vec<Vec<u32>> = Vec::new();
                for _ in 0..n {
                    let k = if r.u8() % 5 == 0 && (next as usize) + 3 * n < c17::NT as usize { 1 + r.below(3) } else { 1 };
                    sets.push((0..k).map(|_| { next += 1; next - 1 }).collect());
                }
                let mut table = vec![0.0f32; n * n];
                for i in 0..n {
                    for j in i + 1..n {
                        let x = r.u16();
                        let v = if coarse { f32::from((x % 7) as u8) / 4.0 } else { f32::from(x) / 65536.0 + (i * 40 + j) as f32 };
                        table[i * n + j] = v;
                        table[j * n + i] = v;
                    }
                }
                vec![("C17", serde_json::to_value(c17::Case { method, sets, table, seed: u64::from(r.u32()), shift: [0.0f32, 0.5, 2.0][r.below(3)], iter_kind: r.u8() % 4, inf_pairs: (0..r.below(4)).map(|_| (r.u16(), r.u16())).collect(), inf_rate: if r.u8() % 4 == 0 { r.u8() } else { 0 }, inf_neg: r.u8() % 4 == 0, scale_exp: if r.u8() % 3 == 0 { (r.u8() % 61) as i8 - 30 } else { 0 } }).unwrap())]
            }
            _ => {
                let all: Vec<u32> = if r.bool() { c06::leaf_ids() } else { c06::all_term_ids() };
                let n_bg = 1 + r.below(4) * 100 + r.below(100);
                let start = r.u16() as usize % all.len();
                let step = [1usize, 3, 7, 11][r.below(4)];
                let mut background: Vec<u32> = Vec::new();
                let mut i = start;
                while background.len() < n_bg.min(all.len()) {
                    let t = all[i % all.len()];
                    if !background.contains(&t) {
                        background.push(t);
                    }
                    i += step;
                    if i > start + all.len() * step {
                        break;
                    }
                }
                let n = 1 + (r.u16() as usize) % background.len();
                if r.bool() {
                    let sample = background.iter().copied().take(n).collect();
                    vec![("C06", serde_json::to_value(c06::Case::Enrich { background, sample }).unwrap())]
                } else {
                    vec![("C06", serde_json::to_value(c06::Case::Sweep { background, n, kind: r.u8() % 3, rec: 1 + u32::from(r.u8() % 30) }).unwrap())]
                }
            }
        },
        _ => vec![],
    }
}

/// Runs the oracles of a target on the given bytes.
pub fn check_target(target: &str, data: &[u8]) -> Vec<(&'static str, Value, Failure)> {
    let mut out = Vec::new();
    let mut st = Stats::default();
    let only = std::env::var("HPO_VERIF_FUZZ_PROP").ok();
    for (pid, case) in decode(target, data) {
        if only.as_deref().is_some_and(|o| o != pid) {
            continue;
        }
        let r = match pid {
            "C20" => serde_json::from_value::<String>(case.clone()).ok().map(|c| c20::check_string(&c, &mut st)),
            "C12" => serde_json::from_value::<c12::Case>(case.clone()).ok().map(|c| c12::check(&c, &mut st)),
            "C08" => serde_json::from_value::<c08::Case>(case.clone()).ok().map(|c| c08::check(&c, &mut st)),
            "C01" => serde_json::from_value::<OntCase>(case.clone()).ok().map(|c| c01::check(&c, &mut st)),
            "C02" => serde_json::from_value::<OntCase>(case.clone()).ok().map(|c| c02::check(&c, &mut st)),
            "C03" => serde_json::from_value::<OntCase>(case.clone()).ok().map(|c| c03::check(&c, &mut st)),
            "C11" => serde_json::from_value::<crate::model::Facts>(case.clone()).ok().map(|c| c11::check(&c, &mut st)),
            "C04" => serde_json::from_value::<crate::model::Facts>(case.clone()).ok().map(|c| c04::check(&c, &mut st)),
            "C05" => serde_json::from_value::<c05::Case>(case.clone()).ok().map(|c| c05::check(&c, &mut st)),
            "C06" => serde_json::from_value::<c06::Case>(case.clone()).ok().map(|c| c06::check(&c, &mut st)),
            "C07" => serde_json::from_value::<OntCase>(case.clone()).ok().map(|c| c07::check(&c, &mut st)),
            "C09" => serde_json::from_value::<OntCase>(case.clone()).ok().map(|c| c09::check(&c, &mut st)),
            "C10" => serde_json::from_value::<c10::Case>(case.clone()).ok().map(|c| c10::check(&c, &mut st)),
            "C13" => serde_json::from_value::<c13::Case>(case.clone()).ok().map(|c| c13::check(&c, &mut st)),
            "C14" => serde_json::from_value::<c14::Case>(case.clone()).ok().map(|c| c14::check(&c, &mut st)),
            "C15" => serde_json::from_value::<c15::Case>(case.clone()).ok().map(|c| c15::check(&c, &mut st)),
            "C16" => serde_json::from_value::<c16::Case>(case.clone()).ok().map(|c| c16::check(&c, &mut st)),
            "C17" => serde_json::from_value::<c17::Case>(case.clone()).ok().map(|c| c17::check(&c, &mut st)),
            "C18" => serde_json::from_value::<c18::Case>(case.clone()).ok().map(|c| c18::check(&c, &mut st)),
            "C19" => serde_json::from_value::<c19::Case>(case.clone()).ok().map(|c| c19::check(&c, &mut st)),
            _ => None,
        };
        if let Some(Err(f)) = r {
            if !f.signature.starts_with("harness/") {
                out.push((pid, case, f));
            }
        }
    }
    out
}

static HOOK: Once = Once::new();

/// Entry point called by every libFuzzer target.
pub fn fuzz_entry(target: &str, data: &[u8]) {
    // libfuzzer-sys installs a panic hook that aborts; the library is allowed
    // to panic on rejected input (C08) and the oracles run under catch_unwind,
    // so replace it with the quiet hook. Oracle failures abort explicitly.
    HOOK.call_once(crate::observe::install_quiet_panic_hook);
    let fails = check_target(target, data);
    if let Some((pid, _case, f)) = fails.first() {
        eprintln!("ORACLE-FAILURE target={target} property={pid} signature={} message={}", f.signature, f.message);
        std::process::abort();
    }
}

/// `hpo_verif --from-fuzz <target> <artifact>`: converts a libFuzzer artifact
/// into violation files; returns the exit code.
pub fn from_fuzz(target: &str, path: &std::path::Path, only: Option<&str>) -> i32 {
    let Ok(data) = std::fs::read(path) else {
        eprintln!("cannot read {}", path.display());
        return 2;
    };
    let fails = check_target(target, &data);
    let known = crate::runner::KnownFindings::load(&crate::runner::verif_root().join("KNOWN_FINDINGS.txt"));
    let mut rc = 0;
    for (pid, case, f) in fails {
        if only.is_some_and(|o| o != pid) {
            continue;
        }
        if let Some(desc) = known.get(pid, &f.signature) {
            println!("KNOWN-FINDING: property={pid} signature={} {desc}", f.signature);
            continue;
        }
        let p = crate::runner::write_violation_file(pid, &case, &f);
        println!("VIOLATION property={pid} replay={}", p.display());
        println!("  signature: {}", f.signature);
        println!("  origin:    fuzz target {target}, artifact {}", path.display());
        println!("  message:   {}", f.message.chars().take(1200).collect::<String>());
        rc = 1;
    }
    rc
}
