//! Byte-level front end for the coverage-guided fuzz targets (thorough tier).
//! Bytes are decoded into the same case types the proptest strategies
//! produce and are checked by the same oracle functions; a failure is written
//! as a replay file exactly like a shrunk proptest failure.

use crate::gen::{self, GenCfg, NameMode, RawFacts, RawNode, RawRec};
use crate::props::common::{OntCase, PathSel};
use crate::props::{c01, c02, c03, c08, c11, c12, c20};
use crate::runner::{Failure, Stats};
use serde_json::{json, Value};
use std::sync::Once;

/// Minimal structured reader; returns zeros when the input is exhausted.
pub struct Reader<'a> {
    d: &'a [u8],
    i: usize,
}
impl<'a> Reader<'a> {
    pub fn new(d: &'a [u8]) -> Self {
        Reader { d, i: 0 }
    }
    pub fn u8(&mut self) -> u8 {
        let v = self.d.get(self.i).copied().unwrap_or(0);
        self.i += 1;
        v
    }
    pub fn u16(&mut self) -> u16 {
        u16::from(self.u8()) << 8 | u16::from(self.u8())
    }
    pub fn u32(&mut self) -> u32 {
        u32::from(self.u16()) << 16 | u32::from(self.u16())
    }
    pub fn bool(&mut self) -> bool {
        self.u8() & 1 == 1
    }
    pub fn below(&mut self, n: usize) -> usize {
        if n == 0 {
            0
        } else {
            self.u8() as usize % n
        }
    }
    pub fn name(&mut self) -> String {
        const POOL: [&str; 12] = ["", "A", "Abnormality of x", "é", "name: with colon", "€uro", "😀", "gene1", "B b", "ß", "All", "x: y: z"];
        let b = self.u8();
        if b < 200 {
            POOL[b as usize % POOL.len()].to_string()
        } else {
            let n = self.below(6);
            (0..n).map(|_| char::from(b'a' + self.u8() % 26)).collect()
        }
    }
    pub fn exhausted(&self) -> bool {
        self.i >= self.d.len()
    }
}

pub fn raw_facts(r: &mut Reader, cfg: &GenCfg) -> RawFacts {
    let shape = r.u8() % 8;
    let id_mode = r.u8() % 4;
    let n = cfg.min_terms + r.below(cfg.max_terms - cfg.min_terms + 1);
    let mut nodes = Vec::new();
    for _ in 0..n {
        let nparents = [0u8, 1, 1, 1, 1, 2, 2, 3][r.below(8)];
        let picks = [r.u16(), r.u16(), r.u16()];
        let idr = r.u32();
        let name = r.name();
        let flags = r.u8();
        nodes.push(RawNode {
            nparents,
            picks,
            idr,
            name,
            obsolete: cfg.flags && flags & 1 == 1,
            repl: if cfg.flags && flags & 2 == 2 { Some(((flags >> 2) % if cfg.dangling_repl { 3 } else { 2 }, r.u16())) } else { None },
        });
    }
    let mut recs: [Vec<RawRec>; 3] = Default::default();
    for rk in recs.iter_mut() {
        let m = r.below(cfg.max_recs + 1);
        for _ in 0..m {
            let idr = r.u8();
            let name = r.name();
            let nl = if cfg.empty_recs { r.below(5) } else { 1 + r.below(4) };
            let links = (0..nl)
                .map(|_| {
                    let p = r.u16();
                    let rel = r.u8();
                    (p, if rel % 3 == 0 { Some((rel & 4 == 4, r.u16())) } else { None })
                })
                .collect();
            rk.push(RawRec { idr, name, links, explicit_add: r.u8() % 3 == 0 });
        }
    }
    let keys = (0..64).map(|_| r.u16()).collect();
    let dup_edges = (0..r.below(3)).map(|_| r.u16()).collect();
    let dup_calls = (0..r.below(3)).map(|_| r.u16()).collect();
    let dup_terms = (0..r.below(2)).map(|_| r.u16()).collect();
    RawFacts {
        shape,
        id_mode,
        nodes,
        version: (r.u16(), r.u8(), r.u8()),
        recs,
        keys,
        dup_edges,
        dup_calls,
        dup_terms,
        detach_118: r.u8() % 10 == 0,
    }
}

/// Decodes the bytes of one fuzz target into (property id, case JSON) pairs.
pub fn decode(target: &str, data: &[u8]) -> Vec<(&'static str, Value)> {
    let mut r = Reader::new(data);
    match target {
        "termid" => match std::str::from_utf8(data) {
            Ok(s) if s.len() <= 64 => vec![("C20", json!(s))],
            _ => vec![],
        },
        "group" => {
            if r.bool() {
                let width = [8usize, 40, c12::POOL_LEN][r.below(3)];
                let n = r.below(160);
                let ops: Vec<c12::Op> = (0..n)
                    .map(|_| match r.u8() % 10 {
                        0..=5 => c12::Op::Insert(c12::pool(r.below(width))),
                        6 => c12::Op::Contains(c12::pool(r.below(width))),
                        7 => c12::Op::Get(r.below(width + 2)),
                        8 => {
                            if r.u8() % 16 == 0 {
                                c12::Op::Clear
                            } else {
                                c12::Op::Snapshot
                            }
                        }
                        _ => c12::Op::Snapshot,
                    })
                    .collect();
                vec![("C12", serde_json::to_value(c12::Case::Ops { ops }).unwrap())]
            } else {
                let na = r.below(80);
                let a: Vec<u32> = (0..na).map(|_| c12::pool(r.below(c12::POOL_LEN))).collect();
                let nb = r.below(80);
                let b: Vec<u32> = (0..nb).map(|_| c12::pool(r.below(c12::POOL_LEN))).collect();
                let id = c12::pool(r.below(c12::POOL_LEN));
                let ctor = r.u8();
                vec![("C12", serde_json::to_value(c12::Case::Pair { a, b, id, ctor }).unwrap())]
            }
        }
        "decode" => {
            let cfg = GenCfg::small().terms(2, 6).recs(2).standard().with_flags(true).names(NameMode::Capped);
            let version = 1 + r.u8() % 3;
            let ns = 1 + r.below(8);
            let suffix: Vec<u8> = (0..ns).map(|_| r.u8()).collect();
            let raw = raw_facts(&mut r, &cfg);
            let facts = gen::realise(&raw, &cfg);
            vec![("C08", serde_json::to_value(c08::Case { facts, version, suffix }).unwrap())]
        }
        "facts" => {
            let cfg = GenCfg::small().terms(1, 14).recs(4);
            let raw = raw_facts(&mut r, &cfg);
            let facts = gen::realise(&raw, &cfg);
            let oc = serde_json::to_value(OntCase { facts: facts.clone(), path: PathSel::Builder, noise: Default::default() }).unwrap();
            let mut f11 = facts.clone();
            // C11 evaluates all pairs with a recursive search: keep it small
            f11.terms.truncate(12);
            let keep: std::collections::BTreeSet<u32> = f11.terms.iter().map(|t| t.id).collect();
            f11.edges.retain(|(c, p)| keep.contains(c) && keep.contains(p));
            f11.recs = Default::default();
            f11.ann_calls.clear();
            vec![("C01", oc.clone()), ("C02", oc.clone()), ("C03", oc), ("C11", serde_json::to_value(f11).unwrap())]
        }
        _ => vec![],
    }
}

/// Runs the oracles of a target on the given bytes.
pub fn check_target(target: &str, data: &[u8]) -> Vec<(&'static str, Value, Failure)> {
    let mut out = Vec::new();
    let mut st = Stats::default();
    for (pid, case) in decode(target, data) {
        let r = match pid {
            "C20" => serde_json::from_value::<String>(case.clone()).ok().map(|c| c20::check_string(&c, &mut st)),
            "C12" => serde_json::from_value::<c12::Case>(case.clone()).ok().map(|c| c12::check(&c, &mut st)),
            "C08" => serde_json::from_value::<c08::Case>(case.clone()).ok().map(|c| c08::check(&c, &mut st)),
            "C01" => serde_json::from_value::<OntCase>(case.clone()).ok().map(|c| c01::check(&c, &mut st)),
            "C02" => serde_json::from_value::<OntCase>(case.clone()).ok().map(|c| c02::check(&c, &mut st)),
            "C03" => serde_json::from_value::<OntCase>(case.clone()).ok().map(|c| c03::check(&c, &mut st)),
            "C11" => serde_json::from_value::<crate::model::Facts>(case.clone()).ok().map(|c| c11::check(&c, &mut st)),
            _ => None,
        };
        if let Some(Err(f)) = r {
            if !f.signature.starts_with("harness/") {
                out.push((pid, case, f));
            }
        }
    }
    out
}

static HOOK: Once = Once::new();

/// Entry point called by every libFuzzer target.
pub fn fuzz_entry(target: &str, data: &[u8]) {
    // libfuzzer-sys installs a panic hook that aborts; the library is allowed
    // to panic on rejected input (C08) and the oracles run under catch_unwind,
    // so replace it with the quiet hook. Oracle failures abort explicitly.
    HOOK.call_once(crate::observe::install_quiet_panic_hook);
    let fails = check_target(target, data);
    if let Some((pid, _case, f)) = fails.first() {
        eprintln!("ORACLE-FAILURE target={target} property={pid} signature={} message={}", f.signature, f.message);
        std::process::abort();
    }
}

/// `hpo_verif --from-fuzz <target> <artifact>`: converts a libFuzzer artifact
/// into violation files; returns the exit code.
pub fn from_fuzz(target: &str, path: &std::path::Path, only: Option<&str>) -> i32 {
    let Ok(data) = std::fs::read(path) else {
        eprintln!("cannot read {}", path.display());
        return 2;
    };
    let fails = check_target(target, &data);
    let known = crate::runner::KnownFindings::load(&crate::runner::verif_root().join("KNOWN_FINDINGS.txt"));
    let mut rc = 0;
    for (pid, case, f) in fails {
        if only.is_some_and(|o| o != pid) {
            continue;
        }
        if let Some(desc) = known.get(pid, &f.signature) {
            println!("KNOWN-FINDING: property={pid} signature={} {desc}", f.signature);
            continue;
        }
        let p = crate::runner::write_violation_file(pid, &case, &f);
        println!("VIOLATION property={pid} replay={}", p.display());
        println!("  signature: {}", f.signature);
        println!("  origin:    fuzz target {target}, artifact {}", path.display());
        println!("  message:   {}", f.message.chars().take(1200).collect::<String>());
        rc = 1;
    }
    rc
}
