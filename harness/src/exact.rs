//! Exact hypergeometric tails with a minimal big-integer type (reference for C06).

use std::cell::RefCell;

/// little-endian base 2^32
#[derive(Clone, Debug, PartialEq, Eq, Default)]
pub struct Big(pub Vec<u32>);

impl Big {
    pub fn zero() -> Big {
        Big(vec![])
    }
    pub fn one() -> Big {
        Big(vec![1])
    }
    pub fn is_zero(&self) -> bool {
        self.0.is_empty()
    }
    fn trim(mut self) -> Big {
        while self.0.last() == Some(&0) {
            self.0.pop();
        }
        self
    }
    pub fn add(&self, o: &Big) -> Big {
        let n = self.0.len().max(o.0.len());
        let mut r = Vec::with_capacity(n + 1);
        let mut carry = 0u64;
        for i in 0..n {
            let s = carry + u64::from(*self.0.get(i).unwrap_or(&0)) + u64::from(*o.0.get(i).unwrap_or(&0));
            r.push(s as u32);
            carry = s >> 32;
        }
        if carry > 0 {
            r.push(carry as u32);
        }
        Big(r).trim()
    }
    pub fn mul(&self, o: &Big) -> Big {
        if self.is_zero() || o.is_zero() {
            return Big::zero();
        }
        let mut r = vec![0u32; self.0.len() + o.0.len()];
        for (i, a) in self.0.iter().enumerate() {
            let mut carry = 0u64;
            for (j, b) in o.0.iter().enumerate() {
                let cur = u64::from(r[i + j]) + u64::from(*a) * u64::from(*b) + carry;
                r[i + j] = cur as u32;
                carry = cur >> 32;
            }
            let mut k = i + o.0.len();
            while carry > 0 {
                let cur = u64::from(r[k]) + carry;
                r[k] = cur as u32;
                carry = cur >> 32;
                k += 1;
            }
        }
        Big(r).trim()
    }
    pub fn bits(&self) -> u64 {
        match self.0.last() {
            None => 0,
            Some(top) => (self.0.len() as u64 - 1) * 32 + u64::from(32 - top.leading_zeros()),
        }
    }
    /// (m, e) with value ≈ m * 2^e, m built from the top 64 bits (relative error < 2^-62)
    pub fn mant_exp(&self) -> (f64, i64) {
        let bits = self.bits();
        if bits == 0 {
            return (0.0, 0);
        }
        if bits <= 64 {
            let mut v: u64 = 0;
            for (i, l) in self.0.iter().enumerate() {
                v |= u64::from(*l) << (32 * i);
            }
            return (v as f64, 0);
        }
        let shift = bits - 64;
        // extract bits [shift, shift+64)
        let mut v: u64 = 0;
        for b in 0..64u64 {
            let pos = shift + b;
            let limb = (pos / 32) as usize;
            if (self.0[limb] >> (pos % 32)) & 1 == 1 {
                v |= 1 << b;
            }
        }
        (v as f64, shift as i64)
    }
}

impl Big {
    pub fn mul_small(&self, m: u32) -> Big {
        let mut r = Vec::with_capacity(self.0.len() + 1);
        let mut carry = 0u64;
        for l in &self.0 {
            let cur = u64::from(*l) * u64::from(m) + carry;
            r.push(cur as u32);
            carry = cur >> 32;
        }
        if carry > 0 {
            r.push(carry as u32);
        }
        Big(r).trim()
    }
    /// exact division by a small number (the remainder must be 0)
    pub fn div_small_exact(&self, d: u32) -> Big {
        let mut r = vec![0u32; self.0.len()];
        let mut rem = 0u64;
        for i in (0..self.0.len()).rev() {
            let cur = (rem << 32) | u64::from(self.0[i]);
            r[i] = (cur / u64::from(d)) as u32;
            rem = cur % u64::from(d);
        }
        assert_eq!(rem, 0, "div_small_exact: not divisible");
        Big(r).trim()
    }
}

/// C(n, i) for i in lo..=hi by the multiplicative recurrence (no triangle: works for large n)
pub fn binom_range(n: usize, lo: usize, hi: usize) -> Vec<Big> {
    let mut out = Vec::with_capacity(hi.saturating_sub(lo) + 1);
    let mut c = Big::one();
    for i in 0..=hi {
        if i > n {
            c = Big::zero();
        }
        if i >= lo {
            out.push(c.clone());
        }
        if i < n {
            c = c.mul_small((n - i) as u32).div_small_exact((i + 1) as u32);
        }
    }
    out
}

/// P[X >= k] exactly for large populations (no Pascal triangle)
pub fn hypergeom_tail_large(pop: usize, succ: usize, draws: usize, k: usize) -> f64 {
    let hi = succ.min(draws);
    let lo = k.max((draws + succ).saturating_sub(pop));
    if lo > hi {
        return 0.0;
    }
    let a = binom_range(succ, lo, hi); // C(K, i), i = lo..=hi
    let b = binom_range(pop - succ, draws - hi, draws - lo); // C(N-K, j), j = n-hi..=n-lo
    let mut num = Big::zero();
    for (x, i) in (lo..=hi).enumerate() {
        let j = draws - i;
        num = num.add(&a[x].mul(&b[j - (draws - hi)]));
    }
    let den = binom_range(pop, draws, draws).pop().unwrap();
    ratio(&num, &den)
}

/// num / den as f64 (relative error ~1e-16)
pub fn ratio(num: &Big, den: &Big) -> f64 {
    if num.is_zero() {
        return 0.0;
    }
    let (m1, e1) = num.mant_exp();
    let (m2, e2) = den.mant_exp();
    let mut r = m1 / m2;
    let mut e = e1 - e2;
    // scale in steps to stay inside the f64 exponent range
    while e > 0 {
        let s = e.min(500);
        r *= 2f64.powi(s as i32);
        e -= s;
    }
    while e < 0 {
        let s = (-e).min(500);
        r *= 2f64.powi(-(s as i32));
        e += s;
    }
    r
}

thread_local! {
    static PASCAL: RefCell<Vec<Vec<Big>>> = const { RefCell::new(Vec::new()) };
}

/// C(n, k) exactly, from a lazily extended Pascal triangle.
pub fn binom(n: usize, k: usize) -> Big {
    if k > n {
        return Big::zero();
    }
    PASCAL.with(|p| {
        let mut p = p.borrow_mut();
        while p.len() <= n {
            let i = p.len();
            let mut row = Vec::with_capacity(i + 1);
            for j in 0..=i {
                if j == 0 || j == i {
                    row.push(Big::one());
                } else {
                    row.push(p[i - 1][j - 1].add(&p[i - 1][j]));
                }
            }
            p.push(row);
        }
        p[n][k].clone()
    })
}

/// P[X >= k], X ~ Hypergeometric(population N, successes K, draws n); exact sum, one rounding.
pub fn hypergeom_tail(pop: usize, succ: usize, draws: usize, k: usize) -> f64 {
    let hi = succ.min(draws);
    let lo = k.max((draws + succ).saturating_sub(pop));
    let mut num = Big::zero();
    for i in lo..=hi {
        if draws - i > pop - succ {
            continue;
        }
        num = num.add(&binom(succ, i).mul(&binom(pop - succ, draws - i)));
    }
    ratio(&num, &binom(pop, draws))
}

#[cfg(test)]
mod tests {
    use super::*;
    #[test]
    fn small() {
        assert_eq!(binom(5, 2), Big(vec![10]));
        assert_eq!(binom(40, 20).mant_exp().0, 137846528820.0);
        let p = hypergeom_tail(50, 25, 13, 2);
        assert!((p - 0.9996189832542278).abs() < 1e-15, "{p}");
        assert!((hypergeom_tail(10, 3, 4, 0) - 1.0).abs() < 1e-15);
        for (n, k, d, x) in [(50, 25, 13, 2), (300, 120, 77, 30), (441, 420, 400, 381), (169, 105, 49, 5)] {
            let a = hypergeom_tail(n, k, d, x);
            let b = hypergeom_tail_large(n, k, d, x);
            assert!((a - b).abs() <= 1e-15 * a.abs(), "{a} {b}");
        }
        // python: sum(Fraction(comb(1101,i)*comb(19484-1101,60-i),comb(19484,60)) for i in range(25,61))
        let p = hypergeom_tail_large(19484, 1101, 60, 25);
        assert!((p - 3.763362705232727e-16).abs() < 1e-28, "{p:e}");
    }
}
