//! Reference model: plain facts about an ontology and everything that can be
//! derived from them *without* going through the `hpo` crate.
//!
//! Nothing in this file calls into `hpo`; it is the oracle side.

use serde::{Deserialize, Serialize};
use std::collections::{BTreeMap, BTreeSet, VecDeque};

pub const GENE: usize = 0;
pub const OMIM: usize = 1;
pub const ORPHA: usize = 2;
pub const KIND_NAMES: [&str; 3] = ["gene", "omim", "orpha"];

#[derive(Clone, Debug, Serialize, Deserialize, PartialEq, Eq, Hash)]
pub struct TermFact {
    pub id: u32,
    pub name: String,
    #[serde(default)]
    pub obsolete: bool,
    #[serde(default)]
    pub replacement: Option<u32>,
}

#[derive(Clone, Debug, Serialize, Deserialize, PartialEq, Eq, Hash)]
pub struct RecFact {
    pub id: u32,
    pub name: String,
    /// directly annotated terms, in supply order, repeats allowed
    pub terms: Vec<u32>,
}

/// One annotation call in Builder supply order.
#[derive(Clone, Debug, Serialize, Deserialize, PartialEq, Eq, Hash)]
pub struct AnnCall {
    pub kind: u8,
    pub rec: u32,
    /// `None` = `add_gene` / `add_*_disease` only
    pub term: Option<u32>,
    /// the call spells the record's name differently (e.g. one MIM title written two ways in
    /// phenotype.hpoa); which spelling is kept is order dependent (first wins) and only used
    /// where names are not compared
    #[serde(default)]
    pub alt_name: Option<String>,
}

/// The facts an ontology is built from. Vectors are in *supply order*.
#[derive(Clone, Debug, Serialize, Deserialize, PartialEq, Eq, Hash, Default)]
pub struct Facts {
    pub version: (u16, u8, u8),
    pub terms: Vec<TermFact>,
    /// (child, parent)
    pub edges: Vec<(u32, u32)>,
    /// records per kind (gene, omim, orpha)
    pub recs: [Vec<RecFact>; 3],
    /// order in which annotation calls are made through the Builder; covers
    /// every (record, term) pair of `recs` at least once and every record
    /// without terms through a `None` call.
    pub ann_calls: Vec<AnnCall>,
}

impl Facts {
    pub fn term(&self, id: u32) -> Option<&TermFact> {
        self.terms.iter().find(|t| t.id == id)
    }
    pub fn has_term(&self, id: u32) -> bool {
        self.terms.iter().any(|t| t.id == id)
    }
    pub fn rec_name(&self, kind: usize, id: u32) -> &str {
        self.recs[kind]
            .iter()
            .find(|r| r.id == id)
            .map(|r| r.name.as_str())
            .unwrap_or("")
    }
    /// Builds `ann_calls` in the canonical order (records in order, terms in order).
    pub fn canonical_ann_calls(&self) -> Vec<AnnCall> {
        let mut v = Vec::new();
        for k in 0..3 {
            for r in &self.recs[k] {
                if r.terms.is_empty() {
                    v.push(AnnCall {
                        kind: k as u8,
                        rec: r.id,
                        term: None,
                        alt_name: None,
                    });
                }
                for t in &r.terms {
                    v.push(AnnCall {
                        kind: k as u8,
                        rec: r.id,
                        term: Some(*t),
                        alt_name: None,
                    });
                }
            }
        }
        v
    }
    /// A stable hash of the canonical (order independent) content.
    pub fn canonical_hash(&self) -> u64 {
        let mut h = Fnv::new();
        h.u64(self.version.0 as u64);
        h.u64(self.version.1 as u64);
        h.u64(self.version.2 as u64);
        let mut terms: Vec<&TermFact> = self.terms.iter().collect();
        terms.sort_by_key(|t| t.id);
        for t in terms {
            h.u64(t.id as u64);
            h.bytes(t.name.as_bytes());
            h.u64(t.obsolete as u64);
            h.u64(t.replacement.map_or(u64::MAX, |r| r as u64));
        }
        let edges: BTreeSet<(u32, u32)> = self.edges.iter().copied().collect();
        for (c, p) in edges {
            h.u64(c as u64);
            h.u64(p as u64 + (1 << 40));
        }
        for k in 0..3 {
            let mut recs: Vec<&RecFact> = self.recs[k].iter().collect();
            recs.sort_by_key(|r| r.id);
            for r in recs {
                h.u64(r.id as u64 + ((k as u64 + 1) << 50));
                h.bytes(r.name.as_bytes());
                let ts: BTreeSet<u32> = r.terms.iter().copied().collect();
                for t in ts {
                    h.u64(t as u64);
                }
            }
        }
        h.finish()
    }
}

/// FNV-1a, used for counting distinct cases (deterministic, unlike `DefaultHasher` seeds).
pub struct Fnv(u64);
impl Default for Fnv {
    fn default() -> Self {
        Self::new()
    }
}
impl Fnv {
    pub fn new() -> Self {
        Fnv(0xcbf29ce484222325)
    }
    pub fn bytes(&mut self, b: &[u8]) {
        for x in b {
            self.0 ^= *x as u64;
            self.0 = self.0.wrapping_mul(0x100000001b3);
        }
        self.0 ^= 0xff;
        self.0 = self.0.wrapping_mul(0x100000001b3);
    }
    pub fn u64(&mut self, v: u64) {
        self.bytes(&v.to_le_bytes());
    }
    pub fn finish(&self) -> u64 {
        self.0
    }
}
pub fn hash_str(s: &str) -> u64 {
    let mut h = Fnv::new();
    h.bytes(s.as_bytes());
    h.finish()
}
pub fn hash_json<T: Serialize>(v: &T) -> u64 {
    hash_str(&serde_json::to_string(v).unwrap_or_default())
}

/// Everything derived from [`Facts`] by textbook algorithms.
#[derive(Clone, Debug)]
pub struct Model {
    pub ids: Vec<u32>,
    pub idx: BTreeMap<u32, usize>,
    pub names: Vec<String>,
    pub obsolete: Vec<bool>,
    pub replacement: Vec<Option<u32>>,
    pub parents: Vec<BTreeSet<u32>>,
    pub children: Vec<BTreeSet<u32>>,
    /// strict ancestors
    pub anc: Vec<BTreeSet<u32>>,
    /// strict descendants
    pub desc: Vec<BTreeSet<u32>>,
    /// direct records: per kind id -> (name, direct terms)
    pub direct: [BTreeMap<u32, (String, BTreeSet<u32>)>; 3],
    /// inherited record ids per kind per term
    pub inh: [Vec<BTreeSet<u32>>; 3],
    pub version: (u16, u8, u8),
}

impl Model {
    /// First name / flags win for duplicate term ids (that is what every
    /// construction path does: `Arena::insert` ignores later duplicates).
    pub fn new(f: &Facts) -> Model {
        let mut first: BTreeMap<u32, &TermFact> = BTreeMap::new();
        for t in &f.terms {
            first.entry(t.id).or_insert(t);
        }
        let ids: Vec<u32> = first.keys().copied().collect();
        let idx: BTreeMap<u32, usize> = ids.iter().enumerate().map(|(i, id)| (*id, i)).collect();
        let n = ids.len();
        let names = ids.iter().map(|i| first[i].name.clone()).collect();
        let obsolete = ids.iter().map(|i| first[i].obsolete).collect();
        let replacement = ids.iter().map(|i| first[i].replacement).collect();
        let mut parents = vec![BTreeSet::new(); n];
        let mut children = vec![BTreeSet::new(); n];
        for (c, p) in &f.edges {
            if let (Some(ci), Some(pi)) = (idx.get(c), idx.get(p)) {
                parents[*ci].insert(*p);
                children[*pi].insert(*c);
            }
        }
        // ancestor closure: BFS upwards from every node
        let mut anc = vec![BTreeSet::new(); n];
        for i in 0..n {
            let mut q: VecDeque<u32> = parents[i].iter().copied().collect();
            let mut seen: BTreeSet<u32> = BTreeSet::new();
            while let Some(x) = q.pop_front() {
                if seen.insert(x) {
                    for p in &parents[idx[&x]] {
                        q.push_back(*p);
                    }
                }
            }
            anc[i] = seen;
        }
        let mut desc = vec![BTreeSet::new(); n];
        for i in 0..n {
            for a in &anc[i] {
                desc[idx[a]].insert(ids[i]);
            }
        }
        let mut direct: [BTreeMap<u32, (String, BTreeSet<u32>)>; 3] = Default::default();
        for k in 0..3 {
            for r in &f.recs[k] {
                let e = direct[k]
                    .entry(r.id)
                    .or_insert_with(|| (r.name.clone(), BTreeSet::new()));
                for t in &r.terms {
                    e.1.insert(*t);
                }
            }
        }
        let mut inh: [Vec<BTreeSet<u32>>; 3] =
            [vec![BTreeSet::new(); n], vec![BTreeSet::new(); n], vec![BTreeSet::new(); n]];
        for k in 0..3 {
            for (rid, (_, terms)) in &direct[k] {
                for t in terms {
                    if let Some(ti) = idx.get(t) {
                        inh[k][*ti].insert(*rid);
                        for a in &anc[*ti] {
                            inh[k][idx[a]].insert(*rid);
                        }
                    }
                }
            }
        }
        Model {
            ids,
            idx,
            names,
            obsolete,
            replacement,
            parents,
            children,
            anc,
            desc,
            direct,
            inh,
            version: f.version,
        }
    }

    pub fn len(&self) -> usize {
        self.ids.len()
    }
    pub fn is_empty(&self) -> bool {
        self.ids.is_empty()
    }
    pub fn i(&self, id: u32) -> usize {
        self.idx[&id]
    }
    pub fn has(&self, id: u32) -> bool {
        self.idx.contains_key(&id)
    }

    /// `anc(t) ∪ {t}`
    pub fn anc_self(&self, id: u32) -> BTreeSet<u32> {
        let mut s = self.anc[self.i(id)].clone();
        s.insert(id);
        s
    }

    /// -ln(n/N) in f64, 0 when n or N is 0
    pub fn ic(&self, kind: usize, id: u32) -> f64 {
        let n = self.inh[kind][self.i(id)].len();
        let total = self.direct[kind].len();
        ic_of(n, total)
    }

    /// Upward BFS distances from `id` to each of its ancestors (including itself: 0).
    pub fn up_dist(&self, id: u32) -> BTreeMap<u32, usize> {
        let mut d: BTreeMap<u32, usize> = BTreeMap::new();
        d.insert(id, 0);
        let mut q = VecDeque::new();
        q.push_back(id);
        while let Some(x) = q.pop_front() {
            let dx = d[&x];
            for p in &self.parents[self.i(x)] {
                if !d.contains_key(p) {
                    d.insert(*p, dx + 1);
                    q.push_back(*p);
                }
            }
        }
        d
    }

    /// min over common ancestors (terms included) of the summed upward distances
    pub fn distance(&self, a: u32, b: u32) -> Option<usize> {
        let da = self.up_dist(a);
        let db = self.up_dist(b);
        da.iter()
            .filter_map(|(c, x)| db.get(c).map(|y| x + y))
            .min()
    }

    /// Modifier roots as `build_with_defaults` defines them (children of 1 except 118)
    pub fn default_modifier(&self) -> Option<BTreeSet<u32>> {
        if !self.has(1) || !self.has(118) {
            return None;
        }
        Some(
            self.children[self.i(1)]
                .iter()
                .copied()
                .filter(|c| *c != 118)
                .collect(),
        )
    }
    pub fn default_categories(&self) -> Option<BTreeSet<u32>> {
        let mut m = self.default_modifier()?;
        for c in &self.children[self.i(118)] {
            m.insert(*c);
        }
        Some(m)
    }
    pub fn is_modifier_with(&self, id: u32, roots: &BTreeSet<u32>) -> bool {
        self.anc_self(id).iter().any(|a| roots.contains(a))
    }
    pub fn categories_with(&self, id: u32, cats: &BTreeSet<u32>) -> Vec<u32> {
        let s = self.anc_self(id);
        cats.iter().copied().filter(|c| s.contains(c)).collect()
    }

    /// depth of the DAG (longest upward chain, in edges)
    pub fn depth(&self) -> usize {
        let mut best = 0;
        for id in &self.ids {
            // longest path up: dynamic programming over ancestors is overkill; use DFS memo
            best = best.max(self.longest_up(*id, &mut BTreeMap::new()));
        }
        best
    }
    fn longest_up(&self, id: u32, memo: &mut BTreeMap<u32, usize>) -> usize {
        if let Some(v) = memo.get(&id) {
            return *v;
        }
        let mut b = 0;
        for p in &self.parents[self.i(id)] {
            b = b.max(1 + self.longest_up(*p, memo));
        }
        memo.insert(id, b);
        b
    }
    /// some node has >= 2 parents that share an ancestor (or one is an ancestor of the other)
    pub fn has_diamond(&self) -> bool {
        for i in 0..self.len() {
            let ps: Vec<u32> = self.parents[i].iter().copied().collect();
            for x in 0..ps.len() {
                for y in x + 1..ps.len() {
                    let ax = self.anc_self(ps[x]);
                    let ay = self.anc_self(ps[y]);
                    if ax.intersection(&ay).next().is_some() {
                        return true;
                    }
                }
            }
        }
        false
    }
    pub fn n_roots(&self) -> usize {
        self.parents.iter().filter(|p| p.is_empty()).count()
    }
}

pub fn ic_of(n: usize, total: usize) -> f64 {
    if n == 0 || total == 0 {
        0.0
    } else {
        -((n as f64) / (total as f64)).ln()
    }
}

/// Longest prefix of `s` with at most `max` bytes that ends on a char boundary.
pub fn char_prefix(s: &str, max: usize) -> &str {
    if s.len() <= max {
        return s;
    }
    let mut e = max;
    while !s.is_char_boundary(e) {
        e -= 1;
    }
    &s[..e]
}

pub fn version_string(v: (u16, u8, u8)) -> String {
    format!("{:0>4}-{:0>2}-{:0>2}", v.0, v.1, v.2)
}

pub fn close_f32(x: f32, y: f64, rel: f64) -> bool {
    let x = x as f64;
    if !x.is_finite() {
        return false;
    }
    (x - y).abs() <= rel * y.abs().max(1.0)
}
