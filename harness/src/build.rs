//! Construction paths: Builder API, an *independent* binary encoder for
//! format v1/v2/v3 (written from the documented layout, not `as_bytes`), and
//! a renderer for the three JAX text files.

use crate::model::*;
use crate::observe::guarded;
use hpo::annotations::{GeneId, OmimDiseaseId, OrphaDiseaseId};
use hpo::builder::Builder;
use hpo::{HpoTermId, Ontology};
use serde::{Deserialize, Serialize};
use std::path::{Path, PathBuf};

#[derive(Clone, Copy, Debug, PartialEq, Eq, Serialize, Deserialize, Hash)]
pub enum Finish {
    Minimal,
    Defaults,
}

/// Builds through the public Builder API in the supply order of `f`.
/// Every call must succeed (facts only reference existing terms).
pub fn via_builder(f: &Facts, finish: Finish) -> Result<Ontology, String> {
    via_builder_opt(f, finish, false)
}

/// `via_builder` with, after every successful call, a call of the same kind that names a term
/// which does not exist (its error is ignored, as a caller that logs and goes on would do). The
/// resulting ontology must be the one the successful calls describe (property C15); lookups (C10)
/// are checked on such ontologies as well.
pub fn via_builder_with_failing_calls(f: &Facts, finish: Finish) -> Result<Ontology, String> {
    via_builder_opt(f, finish, true)
}

fn via_builder_opt(f: &Facts, finish: Finish, failing: bool) -> Result<Ontology, String> {
    // an id that is not a term
    let mut absent = 9_999_993u32;
    while f.has_term(absent) {
        absent -= 1;
    }
    guarded(|| -> Result<Ontology, String> {
        let mut b = Builder::new();
        b.set_hpo_version(f.version);
        for t in &f.terms {
            b.new_term(&t.name, t.id);
        }
        let mut b = b.terms_complete();
        for (c, p) in &f.edges {
            b.add_parent(*p, *c)
                .map_err(|e| format!("add_parent({p},{c}): {e}"))?;
            if failing {
                let _ = b.add_parent(absent, *c);
                let _ = b.add_parent(*p, absent);
            }
        }
        let mut b = b.connect_all_terms();
        for call in &f.ann_calls {
            let name = call.alt_name.as_deref().unwrap_or_else(|| f.rec_name(call.kind as usize, call.rec));
            match (call.kind as usize, call.term) {
                (GENE, None) => b.add_gene(name, GeneId::from(call.rec)),
                (OMIM, None) => {
                    b.add_omim_disease(name, OmimDiseaseId::from(call.rec));
                }
                (ORPHA, None) => {
                    b.add_orpha_disease(name, OrphaDiseaseId::from(call.rec));
                }
                (GENE, Some(t)) => b
                    .annotate_gene(GeneId::from(call.rec), name, HpoTermId::from_u32(t))
                    .map_err(|e| format!("annotate_gene: {e}"))?,
                (OMIM, Some(t)) => b
                    .annotate_omim_disease(
                        OmimDiseaseId::from(call.rec),
                        name,
                        HpoTermId::from_u32(t),
                    )
                    .map_err(|e| format!("annotate_omim: {e}"))?,
                (ORPHA, Some(t)) => b
                    .annotate_orpha_disease(
                        OrphaDiseaseId::from(call.rec),
                        name,
                        HpoTermId::from_u32(t),
                    )
                    .map_err(|e| format!("annotate_orpha: {e}"))?,
                _ => unreachable!(),
            }
            if failing && call.term.is_some() {
                let _ = match call.kind as usize {
                    GENE => b.annotate_gene(GeneId::from(call.rec), name, HpoTermId::from_u32(absent)),
                    OMIM => b.annotate_omim_disease(OmimDiseaseId::from(call.rec), name, HpoTermId::from_u32(absent)),
                    _ => b.annotate_orpha_disease(OrphaDiseaseId::from(call.rec), name, HpoTermId::from_u32(absent)),
                };
            }
        }
        let b = b
            .calculate_information_content()
            .map_err(|e| format!("calculate_information_content: {e}"))?;
        match finish {
            Finish::Minimal => Ok(b.build_minimal()),
            Finish::Defaults => b
                .build_with_defaults()
                .map_err(|e| format!("build_with_defaults: {e}")),
        }
    })
    .map_err(|p| format!("PANIC in builder path: {p}"))?
}

// ---------------------------------------------------------------------------
// Independent binary encoder
//
// Layout (all integers big-endian):
//   v1:  <sections>                       (no magic, no release version)
//   v2:  "HPO" 0x02 year:u16 month:u8 day:u8 <sections without ORPHA>
//   v3:  "HPO" 0x03 year:u16 month:u8 day:u8 <sections with ORPHA>
//   section  := len:u32 payload[len]
//   sections := terms, parents, genes, omim [, orpha]
//   term v1  := total:u32 id:u32 name_len:u8 name            (total = 9+name_len)
//   term v2+ := total:u32 id:u32 name_len:u8 name flags:u8 replacement:u32
//   parents  := n:u32 child:u32 parent:u32 * n              (one record per term)
//   gene     := total:u32 id:u32 name_len:u8 name n:u32 term:u32 * n
//   disease  := total:u32 id:u32 name_len:u32 name n:u32 term:u32 * n
// ---------------------------------------------------------------------------

fn be(v: u32) -> [u8; 4] {
    v.to_be_bytes()
}

fn section(out: &mut Vec<u8>, payload: &[u8]) {
    out.extend_from_slice(&be(payload.len() as u32));
    out.extend_from_slice(payload);
}

/// What can be expressed by a format version; applied to facts before
/// comparing with what the decoder returns.
pub fn restrict_to_version(f: &Facts, v: u8) -> Facts {
    let mut g = f.clone();
    if v == 1 {
        g.version = (0, 0, 0);
        for t in &mut g.terms {
            t.obsolete = false;
            t.replacement = None;
        }
    }
    if v <= 2 {
        g.recs[ORPHA].clear();
        g.ann_calls.retain(|c| c.kind as usize != ORPHA);
    }
    // the replacement field of a term record holds 0 for "no replacement": HP:0000000 as a replacement is not
    // expressible in any version of the format
    for t in &mut g.terms {
        if t.replacement == Some(0) {
            t.replacement = None;
        }
    }
    g
}

/// Encodes `f` in format version `v` (1, 2 or 3). Names are written as they
/// are and must fit their length field (term/gene names <= 255 bytes).
/// Duplicate edges are merged per term (the format lists the parents per term).
pub fn encode(f: &Facts, v: u8) -> Vec<u8> {
    encode_styled(f, v, 0)
}

/// Layout choices the format leaves to the writer (`style % 4`): 0 one parent record per term in
/// supply order, parentless terms as records with n = 0 (what `as_bytes` writes); 1 no record for
/// parentless terms; 2 parent records and each record's term list in reverse order; 3 one parent
/// record per is_a link (a term with two parents has two records), in link supply order.
pub fn encode_styled(f: &Facts, v: u8, style: u8) -> Vec<u8> {
    let style = style % 4;
    let mut out = Vec::new();
    if v >= 2 {
        out.extend_from_slice(b"HPO");
        out.push(v);
        out.extend_from_slice(&f.version.0.to_be_bytes());
        out.push(f.version.1);
        out.push(f.version.2);
    }
    // terms
    let mut buf = Vec::new();
    for t in &f.terms {
        let name = t.name.as_bytes();
        assert!(name.len() <= 255, "encoder: term name too long");
        let total = if v == 1 { 9 + name.len() } else { 14 + name.len() };
        buf.extend_from_slice(&be(total as u32));
        buf.extend_from_slice(&be(t.id));
        buf.push(name.len() as u8);
        buf.extend_from_slice(name);
        if v >= 2 {
            buf.push(u8::from(t.obsolete));
            buf.extend_from_slice(&be(t.replacement.unwrap_or(0)));
        }
    }
    section(&mut out, &buf);
    // parents: one record per term in supply order, parents in order of first mention
    buf.clear();
    if style == 3 {
        let mut seen: std::collections::HashSet<(u32, u32)> = std::collections::HashSet::new();
        for (c, p) in &f.edges {
            if seen.insert((*c, *p)) {
                buf.extend_from_slice(&be(1));
                buf.extend_from_slice(&be(*c));
                buf.extend_from_slice(&be(*p));
            }
        }
    } else {
        let by_child = {
            let mut m: std::collections::HashMap<u32, Vec<u32>> = std::collections::HashMap::new();
            for (c, p) in &f.edges {
                let e = m.entry(*c).or_default();
                if !e.contains(p) {
                    e.push(*p);
                }
            }
            m
        };
        let mut written: std::collections::HashSet<u32> = std::collections::HashSet::new();
        let order: Vec<&TermFact> = if style == 2 { f.terms.iter().rev().collect() } else { f.terms.iter().collect() };
        for t in order {
            // (duplicate term definitions: one record for the id)
            if !written.insert(t.id) {
                continue;
            }
            let mut ps: Vec<u32> = by_child.get(&t.id).cloned().unwrap_or_default();
            if style == 2 {
                ps.reverse();
            }
            if ps.is_empty() && style == 1 {
                continue;
            }
            buf.extend_from_slice(&be(ps.len() as u32));
            buf.extend_from_slice(&be(t.id));
            for p in ps {
                buf.extend_from_slice(&be(p));
            }
        }
    }
    section(&mut out, &buf);
    // genes
    buf.clear();
    for r in &f.recs[GENE] {
        let name = r.name.as_bytes();
        assert!(name.len() <= 255, "encoder: gene name too long");
        let total = 4 + 4 + 1 + name.len() + 4 + 4 * r.terms.len();
        buf.extend_from_slice(&be(total as u32));
        buf.extend_from_slice(&be(r.id));
        buf.push(name.len() as u8);
        buf.extend_from_slice(name);
        buf.extend_from_slice(&be(r.terms.len() as u32));
        if style == 2 {
            for t in r.terms.iter().rev() {
                buf.extend_from_slice(&be(*t));
            }
        } else {
            for t in &r.terms {
                buf.extend_from_slice(&be(*t));
            }
        }
    }
    section(&mut out, &buf);
    let kinds: &[usize] = if v >= 3 { &[OMIM, ORPHA] } else { &[OMIM] };
    for k in kinds {
        buf.clear();
        for r in &f.recs[*k] {
            let name = r.name.as_bytes();
            let total = 4 + 4 + 4 + name.len() + 4 + 4 * r.terms.len();
            buf.extend_from_slice(&be(total as u32));
            buf.extend_from_slice(&be(r.id));
            buf.extend_from_slice(&be(name.len() as u32));
            buf.extend_from_slice(name);
            buf.extend_from_slice(&be(r.terms.len() as u32));
            if style == 2 {
                for t in r.terms.iter().rev() {
                    buf.extend_from_slice(&be(*t));
                }
            } else {
                for t in &r.terms {
                    buf.extend_from_slice(&be(*t));
                }
            }
        }
        section(&mut out, &buf);
    }
    out
}

/// Byte offsets where the sections of an encoded file start (for evidence
/// and for targeted extensions): returns the offset of each section header.
pub fn section_offsets(bytes: &[u8], v: u8) -> Vec<usize> {
    let mut off = if v >= 2 { 8 } else { 0 };
    let n = if v >= 3 { 5 } else { 4 };
    let mut res = Vec::new();
    for _ in 0..n {
        if off + 4 > bytes.len() {
            break;
        }
        res.push(off);
        let l = u32::from_be_bytes([bytes[off], bytes[off + 1], bytes[off + 2], bytes[off + 3]])
            as usize;
        off += 4 + l;
    }
    res
}

/// `Ontology::from_bytes` under catch_unwind.
#[derive(Debug)]
pub enum Decoded {
    Ok(Box<Ontology>),
    Err(String),
    Panic(String),
}

pub fn decode(bytes: &[u8]) -> Decoded {
    match guarded(|| Ontology::from_bytes(bytes)) {
        Ok(Ok(o)) => Decoded::Ok(Box::new(o)),
        Ok(Err(e)) => Decoded::Err(format!("{e}")),
        Err(p) => Decoded::Panic(p),
    }
}

pub fn via_binary(f: &Facts, v: u8) -> Result<Ontology, String> {
    // the writer style follows from the facts (deterministic, all four styles occur)
    let style = (f.terms.len() + 3 * f.edges.len() + f.recs[GENE].len()) % 4;
    match decode(&encode_styled(f, v, style as u8)) {
        Decoded::Ok(o) => Ok(*o),
        Decoded::Err(e) => Err(format!("from_bytes(v{v}) error: {e}")),
        Decoded::Panic(p) => Err(format!("PANIC in from_bytes(v{v}): {p}")),
    }
}

// ---------------------------------------------------------------------------
// JAX text renderer
// ---------------------------------------------------------------------------

/// Noise added to the rendered files. All of it must be ignored by the loaders.
#[derive(Clone, Debug, Serialize, Deserialize, PartialEq, Eq, Hash, Default)]
#[serde(default)]
pub struct JaxNoise {
    /// 0: "#..." header, 1: column-name header
    pub gene_header: u8,
    /// extra tag lines per stanza (index into a fixed pool), keyed by position
    pub extra_tags: Vec<u8>,
    /// number of [Typedef] stanzas interleaved
    pub typedefs: u8,
    /// NOT rows: (kind 1|2, disease id, name, term id)
    pub not_rows: Vec<(u8, u32, String, u32)>,
    /// DECIPHER rows: (id, term)
    pub decipher_rows: Vec<(u32, u32)>,
    /// comment lines in phenotype.hpoa
    pub comments: u8,
    /// trailing extra columns on rows
    pub extra_cols: bool,
    /// write `is_obsolete: false` explicitly on some non-obsolete terms
    pub explicit_false: bool,
    /// trailing modifiers on is_a lines: `is_a: HP:0000001 {source="x"} ! name`
    pub isa_modifier: bool,
    /// blank lines inside phenotype.hpoa
    pub blank_rows: bool,
    /// hp.obo without a header block (the release version is then 0000-00-00; the facts
    /// of such a case carry version (0,0,0))
    pub no_header: bool,
    /// head of phenotype.hpoa: 0 "#" comment lines + column-name line, 1 column-name line only,
    /// 2 comment lines only, 3 neither (the file starts with the first row)
    pub hpoa_head: u8,
    /// end of the four files: 0 one newline after the last line, 1 no newline after the last line,
    /// 2 an additional blank line at the end of hp.obo and phenotype.hpoa
    pub eof: u8,
    /// header / comment lines longer than a reader buffer (8 KiB) in all four files
    pub long_lines: bool,
    /// order of the tags inside a [Term] stanza (OBO recommends an order, it does not require one): 0 `id` first
    /// in every stanza; otherwise, varying from stanza to stanza, `id` after `name`, `id` last, all lines reversed
    pub tag_order: u8,
    /// terms with two or more is_a lines are written as two [Term] stanzas of the same id and name, each with a part
    /// of the lines (the first stanza carries the flags; a repeated stanza adds its links to the term)
    pub split_stanzas: bool,
    /// position of the `data-version` line in the header of hp.obo: 0 directly after `format-version` (as in the
    /// releases), 1 after other header tags, 2 as the last header line
    pub header_order: u8,
}

const TAG_POOL: [&str; 8] = [
    "def: \"Some definition: with colon.\" [HPO:probinson]",
    "synonym: \"Other name\" EXACT layperson []",
    "xref: UMLS:C0000001",
    "alt_id: HP:9999998",
    "comment: A comment: is_a: HP:9999997 ! not a parent",
    "subset: hposlim_core",
    "created_by: name: id: 5",
    "property_value: http://purl.org/dc/elements/1.1/date 2020-01-01T00:00:00Z xsd:dateTime",
];

fn hp(id: u32) -> String {
    format!("HP:{id:07}")
}

pub struct JaxFiles {
    pub obo: String,
    pub hpoa: String,
    pub genes_to_phenotype: String,
    pub phenotype_to_genes: String,
}

/// Renders the facts. Terms in `f.terms` order (stanzas), is_a lines in
/// `f.edges` order, rows in `f.ann_calls` order (records without terms cannot
/// be expressed and must not be present in `f`).
/// Qualifier column of a disease row that must be kept: empty, or (in files with extra columns or blank rows) a text
/// that is not exactly `NOT` - the statement of C09 drops a row only when its qualifier is `NOT`.
pub fn kept_qualifier(noise: &JaxNoise, pos: usize) -> &'static str {
    const QUALS: [&str; 12] = ["", "not", "", "Not", "NOT ", "", " NOT", "nOT", "NOTE", "", "KNOT", "N"];
    if noise.extra_cols || noise.blank_rows {
        QUALS[(pos + noise.eof as usize) % QUALS.len()]
    } else {
        ""
    }
}

pub fn render_jax(f: &Facts, noise: &JaxNoise) -> JaxFiles {
    let mut obo = String::new();
    if !noise.no_header {
        let version_line = format!("data-version: hp/releases/{:04}-{:02}-{:02}\n", f.version.0, f.version.1, f.version.2);
        obo.push_str("format-version: 1.2\n");
        if noise.header_order % 3 == 0 {
            obo.push_str(&version_line);
        }
        obo.push_str("saved-by: verif\n");
        if noise.header_order % 3 == 1 {
            obo.push_str("date: 01:01:2024 12:00\nsubsetdef: hposlim_core \"Core clinical terminology\"\n");
            obo.push_str(&version_line);
        }
        obo.push_str("ontology: hp\n");
        if noise.long_lines {
            obo.push_str(&format!("remark: {}\n", "long remark ".repeat(800)));
        }
        if noise.header_order % 3 == 2 {
            obo.push_str("default-namespace: human_phenotype\n");
            obo.push_str(&version_line);
        }
    }
    let mut tag_i = 0usize;
    let mut typedefs = noise.typedefs as usize;
    for (pos, t) in f.terms.iter().enumerate() {
        if typedefs > 0 && pos % 3 == 1 {
            typedefs -= 1;
            obo.push_str("\n[Typedef]\nid: part_of\nname: part of\nis_a: HP:0000001 ! bogus\n");
        }
        obo.push_str("\n[Term]\n");
        let stanza_start = obo.len();
        obo.push_str(&format!("id: {}\n", hp(t.id)));
        let ntags = if noise.extra_tags.is_empty() { 0 } else { noise.extra_tags[pos % noise.extra_tags.len()] as usize % 4 };
        // some tags before name, some after
        for j in 0..ntags {
            if j % 2 == 0 && !noise.extra_tags.is_empty() {
                let tg = TAG_POOL[(noise.extra_tags[(tag_i) % noise.extra_tags.len()] as usize + j) % TAG_POOL.len()];
                // `alt_id`/`comment` etc. before the name
                obo.push_str(tg);
                obo.push('\n');
                tag_i += 1;
            }
        }
        obo.push_str(&format!("name: {}\n", t.name));
        for j in 0..ntags {
            if j % 2 == 1 {
                let tg = TAG_POOL[(noise.extra_tags[(tag_i) % noise.extra_tags.len()] as usize + j) % TAG_POOL.len()];
                obo.push_str(tg);
                obo.push('\n');
                tag_i += 1;
            }
        }
        for (c, p) in &f.edges {
            if *c == t.id {
                let pname = f.term(*p).map(|x| x.name.as_str()).unwrap_or("");
                if noise.isa_modifier && (pos + *p as usize) % 2 == 0 {
                    obo.push_str(&format!("is_a: {} {{source=\"PMID:1\"}} ! {}\n", hp(*p), pname));
                } else {
                    obo.push_str(&format!("is_a: {} ! {}\n", hp(*p), pname));
                }
                // other tags between the is_a lines of a stanza (the tag order of a stanza is free)
                if noise.extra_tags.len() >= 2 && (noise.extra_tags[1] as usize + pos) % 3 == 0 {
                    obo.push_str(TAG_POOL[(noise.extra_tags[0] as usize + *p as usize) % TAG_POOL.len()]);
                    obo.push('\n');
                }
            }
        }
        if t.obsolete {
            obo.push_str("is_obsolete: true\n");
        } else if noise.explicit_false && pos % 2 == 0 {
            obo.push_str("is_obsolete: false\n");
        }
        if let Some(r) = t.replacement {
            obo.push_str(&format!("replaced_by: {}\n", hp(r)));
        }
        if noise.split_stanzas && f.edges.iter().filter(|(c, _)| *c == t.id).count() >= 2 && pos % 2 == 0 {
            // move the second half of the is_a lines (with whatever stands between them) into a second stanza
            let lines: Vec<String> = obo[stanza_start..].lines().map(str::to_string).collect();
            let isa: Vec<usize> = (0..lines.len()).filter(|i| lines[*i].starts_with("is_a: ")).collect();
            let cut = isa[isa.len() / 2];
            let last = isa[isa.len() - 1];
            obo.truncate(stanza_start);
            for (i, l) in lines.iter().enumerate() {
                if i < cut || i > last {
                    obo.push_str(l);
                    obo.push('\n');
                }
            }
            obo.push_str(&format!("\n[Term]\nid: {}\nname: {}\n", hp(t.id), t.name));
            for l in &lines[cut..=last] {
                obo.push_str(l);
                obo.push('\n');
            }
        } else if noise.tag_order != 0 {
            let mut lines: Vec<String> = obo[stanza_start..].lines().map(str::to_string).collect();
            match (noise.tag_order as usize + pos) % 4 {
                1 => {
                    // id directly after the name
                    let id_line = lines.remove(0);
                    let at = lines.iter().position(|l| l.starts_with("name: ")).map_or(0, |i| i + 1);
                    lines.insert(at, id_line);
                }
                2 => {
                    let id_line = lines.remove(0);
                    lines.push(id_line);
                }
                3 => lines.reverse(),
                _ => {}
            }
            obo.truncate(stanza_start);
            for l in lines {
                obo.push_str(&l);
                obo.push('\n');
            }
        }
    }
    while typedefs > 0 {
        typedefs -= 1;
        obo.push_str("\n[Typedef]\nid: has_part\nname: has part\n");
    }

    if noise.no_header {
        // the file starts directly with the first stanza
        obo = obo.trim_start_matches('\n').to_string();
    }
    let mut hpoa = String::new();
    if noise.hpoa_head % 4 == 0 || noise.hpoa_head % 4 == 2 {
        hpoa.push_str("#description: \"HPO annotations for rare diseases\"\n#version: 2024-01-01\n");
        if noise.long_lines {
            hpoa.push_str(&format!("#contributors: {}\n", "somebody; ".repeat(1000)));
        }
    }
    if noise.hpoa_head % 4 < 2 {
        hpoa.push_str("database_id\tdisease_name\tqualifier\thpo_id\treference\tevidence\tonset\tfrequency\tsex\tmodifier\taspect\tbiocuration\n");
    }
    let mut g2p = String::new();
    let mut p2g = String::new();
    // (a header line longer than a reader buffer when `long_lines` is set)
    let pad = if noise.long_lines { "\textra_column".repeat(700) } else { String::new() };
    if noise.gene_header == 0 {
        g2p.push_str(&format!("#Format: entrez-gene-id<tab>entrez-gene-symbol<tab>HPO-Term-ID{pad}\n"));
        p2g.push_str(&format!("#Format: HPO-id<tab>HPO label<tab>entrez-gene-id<tab>entrez-gene-symbol{pad}\n"));
    } else {
        g2p.push_str(&format!("ncbi_gene_id\tgene_symbol\thpo_id\thpo_name\tfrequency\tdisease_id{pad}\n"));
        p2g.push_str(&format!("hpo_id\thpo_name\tncbi_gene_id\tgene_symbol\tdisease_id{pad}\n"));
    }
    let mut not_rows = noise.not_rows.clone();
    let mut dec_rows = noise.decipher_rows.clone();
    let mut comments = noise.comments as usize;
    let extra = if noise.extra_cols { "\tPMID:1\tTAS\t\t1/2\t\t\tP\tHPO:x[2020-01-01]" } else { "" };
    for (pos, c) in f.ann_calls.iter().enumerate() {
        let Some(t) = c.term else { continue };
        let name = c.alt_name.as_deref().unwrap_or_else(|| f.rec_name(c.kind as usize, c.rec));
        match c.kind as usize {
            GENE => {
                let tname = f.term(t).map(|x| x.name.as_str()).unwrap_or("");
                // names may contain anything but tabs; the hpo_name column is ignored by the loader
                if noise.extra_cols {
                    g2p.push_str(&format!("{}\t{}\t{}\t{}\t-\tOMIM:1\n", c.rec, name, hp(t), tname));
                    p2g.push_str(&format!("{}\t{}\t{}\t{}\t-\tmim2gene\tOMIM:1\n", hp(t), tname, c.rec, name));
                } else {
                    g2p.push_str(&format!("{}\t{}\t{}\n", c.rec, name, hp(t)));
                    p2g.push_str(&format!("{}\t{}\t{}\t{}\n", hp(t), tname, c.rec, name));
                }
            }
            k => {
                let db = if k == OMIM { "OMIM" } else { "ORPHA" };
                hpoa.push_str(&format!("{db}:{}\t{}\t{}\t{}{}\n", c.rec, name, kept_qualifier(noise, pos), hp(t), extra));
            }
        }
        if pos % 2 == 0 {
            if let Some((k, id, nm, term)) = not_rows.pop() {
                let db = if k as usize == OMIM { "OMIM" } else { "ORPHA" };
                hpoa.push_str(&format!("{db}:{id}\t{nm}\tNOT\t{}{}\n", hp(term), extra));
            }
        } else if let Some((id, term)) = dec_rows.pop() {
            hpoa.push_str(&format!("DECIPHER:{id}\tSome syndrome\t\t{}{}\n", hp(term), extra));
        }
        if comments > 0 && pos % 3 == 0 {
            comments -= 1;
            hpoa.push_str("#OMIM:1\tcommented out\t\tHP:0000001\n");
        }
        if noise.blank_rows && pos % 4 == 1 {
            hpoa.push('\n');
        }
    }
    for (k, id, nm, term) in not_rows {
        let db = if k as usize == OMIM { "OMIM" } else { "ORPHA" };
        hpoa.push_str(&format!("{db}:{id}\t{nm}\tNOT\t{}{}\n", hp(term), extra));
    }
    for (id, term) in dec_rows {
        hpoa.push_str(&format!("DECIPHER:{id}\tSome syndrome\t\t{}{}\n", hp(term), extra));
    }
    // (the gene files do not admit blank lines: the loader rejects them as malformed rows)
    let end = |mut t: String, blank_ok: bool| -> String {
        match noise.eof % 3 {
            1 => {
                while t.ends_with('\n') {
                    t.pop();
                }
            }
            2 if blank_ok => t.push('\n'),
            _ => {}
        }
        t
    };
    JaxFiles {
        obo: end(obo, true),
        hpoa: end(hpoa, true),
        genes_to_phenotype: end(g2p, false),
        phenotype_to_genes: end(p2g, false),
    }
}

/// A private scratch directory, removed on drop.
pub struct Scratch {
    pub path: PathBuf,
}
impl Scratch {
    pub fn new(tag: &str) -> Scratch {
        use std::sync::atomic::{AtomicU64, Ordering};
        static N: AtomicU64 = AtomicU64::new(0);
        let n = N.fetch_add(1, Ordering::Relaxed);
        let path = std::env::temp_dir().join(format!(
            "hpo_verif_{}_{}_{}",
            std::process::id(),
            tag,
            n
        ));
        std::fs::create_dir_all(&path).expect("cannot create scratch dir");
        Scratch { path }
    }
}
impl Drop for Scratch {
    fn drop(&mut self) {
        let _ = std::fs::remove_dir_all(&self.path);
    }
}

pub fn write_jax(dir: &Path, files: &JaxFiles) {
    std::fs::write(dir.join("hp.obo"), &files.obo).unwrap();
    std::fs::write(dir.join("phenotype.hpoa"), &files.hpoa).unwrap();
    std::fs::write(dir.join("genes_to_phenotype.txt"), &files.genes_to_phenotype).unwrap();
    std::fs::write(dir.join("phenotype_to_genes.txt"), &files.phenotype_to_genes).unwrap();
}

pub fn via_jax(f: &Facts, noise: &JaxNoise, transitive: bool, scratch: &Scratch) -> Result<Ontology, String> {
    let files = render_jax(f, noise);
    write_jax(&scratch.path, &files);
    // the folder argument with and without a trailing slash
    let mut dir = scratch.path.to_str().unwrap().to_string();
    if f.terms.len() % 2 == 0 {
        dir.push('/');
    }
    let r = guarded(|| {
        if transitive {
            Ontology::from_standard_transitive(&dir)
        } else {
            Ontology::from_standard(&dir)
        }
    });
    match r {
        Ok(Ok(o)) => Ok(o),
        Ok(Err(e)) => Err(format!("from_standard error: {e}")),
        Err(p) => Err(format!("PANIC in from_standard: {p}")),
    }
}

pub fn roundtrip(o: &Ontology) -> Result<Ontology, String> {
    let bytes = guarded(|| o.as_bytes()).map_err(|p| format!("PANIC in as_bytes: {p}"))?;
    match decode(&bytes) {
        Decoded::Ok(o) => Ok(*o),
        Decoded::Err(e) => Err(format!("from_bytes(as_bytes()) error: {e}")),
        Decoded::Panic(p) => Err(format!("PANIC in from_bytes(as_bytes()): {p}")),
    }
}
