use hpo_verif::runner::*;
use std::path::Path;

fn usage() -> ! {
    eprintln!("usage: hpo_verif <ID> <quick|thorough> | --replay <file> | --list");
    std::process::exit(2);
}

fn cleanup_scratch() {
    let prefix = format!("hpo_verif_{}_", std::process::id());
    if let Ok(rd) = std::fs::read_dir(std::env::temp_dir()) {
        for e in rd.flatten() {
            if e.file_name().to_string_lossy().starts_with(&prefix) {
                let _ = std::fs::remove_dir_all(e.path());
            }
        }
    }
}

fn main() {
    let args: Vec<String> = std::env::args().skip(1).collect();
    hpo_verif::observe::install_quiet_panic_hook();
    let props = hpo_verif::props::all();
    let code = match args.first().map(|s| s.as_str()) {
        Some("--list") => {
            for p in &props {
                println!("{}", p.id());
            }
            0
        }
        Some("--worker") => {
            // --worker <ID> <tier> <seed> <index> <cases>
            let (Some(id), Some(tier), Some(seed), Some(index), Some(per)) = (args.get(1), args.get(2), args.get(3), args.get(4), args.get(5)) else { usage() };
            let tier = if tier == "thorough" { Tier::Thorough } else { Tier::Quick };
            let Some(p) = props.iter().find(|p| p.id() == id) else { usage() };
            worker_main(p.as_ref(), tier, seed.parse().unwrap_or(0), index.parse().unwrap_or(0), per.parse().unwrap_or(0))
        }
        Some("--regen") => {
            // --regen <ID> <tier> <seed> <worker> <cases> <len> <file>
            let (Some(id), Some(tier), Some(seed), Some(index), Some(k), Some(len), Some(f)) = (args.get(1), args.get(2), args.get(3), args.get(4), args.get(5), args.get(6), args.get(7)) else { usage() };
            let tier = if tier == "thorough" { Tier::Thorough } else { Tier::Quick };
            let Some(p) = props.iter().find(|p| p.id() == id) else { usage() };
            regen_main(p.as_ref(), tier, seed.parse().unwrap_or(0), index.parse().unwrap_or(0), k.parse().unwrap_or(0), len.parse().unwrap_or(0), Path::new(f))
        }
        Some("--plan") => {
            // --plan <ID> <case file>
            let (Some(id), Some(f)) = (args.get(1), args.get(2)) else { usage() };
            let Some(p) = props.iter().find(|p| p.id() == id) else { usage() };
            plan_main(p.as_ref(), Path::new(f))
        }
        Some("--from-fuzz") => {
            // --from-fuzz <target> <artifact> [property]
            let (Some(t), Some(f)) = (args.get(1), args.get(2)) else { usage() };
            hpo_verif::fuzzdec::from_fuzz(t, Path::new(f), args.get(3).map(|s| s.as_str()))
        }
        Some("--replay") => {
            let Some(f) = args.get(1) else { usage() };
            replay_file(&props, Path::new(f))
        }
        Some(id) => {
            let tier = match std::env::var("VERIF_TIER").ok().as_deref().or(args.get(1).map(|s| s.as_str())) {
                Some("thorough") => Tier::Thorough,
                Some("quick") | None => Tier::Quick,
                Some(_) => usage(),
            };
            // the positional argument wins over the environment
            let tier = match args.get(1).map(|s| s.as_str()) {
                Some("thorough") => Tier::Thorough,
                Some("quick") => Tier::Quick,
                _ => tier,
            };
            let seed: u64 = std::env::var("VERIF_SEED")
                .ok()
                .and_then(|s| s.trim().parse::<i64>().ok().map(|v| v as u64).or_else(|| s.trim().parse::<u64>().ok()))
                .unwrap_or(20260926);
            let Some(p) = props.iter().find(|p| p.id() == id) else {
                eprintln!("unknown property {id}");
                std::process::exit(2)
            };
            run_property(p.as_ref(), tier, seed).exit
        }
        None => usage(),
    };
    cleanup_scratch();
    std::process::exit(code);
}
