//! Engine: parallel proptest `TestRunner`s with fixed seeds and fixed work,
//! shrinking, replay files, evidence, known findings.

use crate::model::{hash_str, Fnv};
use proptest::strategy::BoxedStrategy;
use proptest::test_runner::{Config, RngSeed, TestCaseError, TestError, TestRunner};
use serde::de::DeserializeOwned;
use serde::Serialize;
use serde_json::{json, Value};
use std::cell::{Cell, RefCell};
use std::collections::{BTreeMap, BTreeSet};
use std::path::{Path, PathBuf};
use std::time::Instant;

#[derive(Clone, Copy, Debug, PartialEq, Eq)]
pub enum Tier {
    Quick,
    Thorough,
}
impl Tier {
    pub fn name(self) -> &'static str {
        match self {
            Tier::Quick => "quick",
            Tier::Thorough => "thorough",
        }
    }
}

/// A property violation found by a check function.
#[derive(Clone, Debug)]
pub struct Failure {
    /// stable class of the failure: `<accessor>/<input class>`; together with
    /// the property id this is what known findings are keyed on
    pub signature: String,
    pub message: String,
}
pub type CheckResult = Result<(), Failure>;

/// A failing case is re-checked up to this many times (hash-order dependent failures).
pub const REPLAY_RETRIES: usize = 24;

pub fn fail<T>(signature: impl Into<String>, message: impl Into<String>) -> Result<T, Failure> {
    Err(Failure {
        signature: signature.into(),
        message: message.into(),
    })
}

#[macro_export]
macro_rules! ensure {
    ($cond:expr, $sig:expr, $($arg:tt)*) => {
        if !($cond) {
            return Err($crate::runner::Failure { signature: ($sig).to_string(), message: format!($($arg)*) });
        }
    };
}

/// Per-worker statistics, merged at the end.
#[derive(Default, Debug, Serialize, serde::Deserialize)]
pub struct Stats {
    /// generated cases
    pub cases: u64,
    /// inner evaluations (pairs, decodes, queries ...)
    pub evaluations: u64,
    /// hashes of distinct non-trivial cases
    pub nontrivial: BTreeSet<u64>,
    pub labels: BTreeMap<String, u64>,
    pub counters: BTreeMap<String, u64>,
    pub samples: Vec<Value>,
    /// failures whose signature is listed as known finding: counted, the search continues
    #[serde(default)]
    pub known_hits: BTreeMap<String, u64>,
    /// first generated case (used as sample when no non-trivial sample was recorded)
    pub first_case: Option<Value>,
    pub frozen: bool,
    /// after a failure: the generated cases that preceded it in this worker, ending with the
    /// failing one as generated (not shrunk). Used when a failure depends on state that the
    /// library keeps between calls and therefore does not reproduce from the single case.
    #[serde(default)]
    pub failure_history: Vec<Value>,
}

impl Stats {
    pub fn label(&mut self, l: &str) {
        if !self.frozen {
            *self.labels.entry(l.to_string()).or_insert(0) += 1;
        }
    }
    pub fn count(&mut self, c: &str, n: u64) {
        if !self.frozen {
            *self.counters.entry(c.to_string()).or_insert(0) += n;
        }
    }
    pub fn eval(&mut self, n: u64) {
        if !self.frozen {
            self.evaluations += n;
        }
    }
    pub fn nontrivial(&mut self, h: u64) {
        if !self.frozen {
            self.nontrivial.insert(h);
        }
    }
    /// keeps the first few non-trivial samples
    pub fn sample(&mut self, v: impl FnOnce() -> Value) {
        if !self.frozen && self.samples.len() < 2 {
            self.samples.push(v());
        }
    }
    pub fn merge(&mut self, o: Stats) {
        self.cases += o.cases;
        self.evaluations += o.evaluations;
        self.nontrivial.extend(o.nontrivial);
        for (k, v) in o.labels {
            *self.labels.entry(k).or_insert(0) += v;
        }
        for (k, v) in o.counters {
            *self.counters.entry(k).or_insert(0) += v;
        }
        // (samples of the large deterministic sweeps are megabytes long: the evidence file keeps small ones only)
        let small = |v: &Value| serde_json::to_string(v).map(|t| t.len() <= 20_000).unwrap_or(false);
        for s in o.samples {
            if self.samples.len() < 5 && small(&s) {
                self.samples.push(s);
            }
        }
        if self.first_case.is_none() && o.first_case.as_ref().is_some_and(small) {
            self.first_case = o.first_case;
        }
        for (k, v) in o.known_hits {
            *self.known_hits.entry(k).or_insert(0) += v;
        }
    }
}

/// What a property module provides.
pub trait Property: Sync + Send {
    fn id(&self) -> &'static str;
    fn level(&self) -> &'static str {
        "exploration"
    }
    /// how cases are generated and what makes one non-trivial / distinct
    fn rule(&self) -> String;
    fn assumptions(&self) -> Vec<String>;
    /// number of generated cases per tier (fixed work)
    fn cases(&self, tier: Tier) -> u64;
    /// labels that must occur in a run; otherwise the run is inconclusive (exit 2)
    fn required_labels(&self, _tier: Tier) -> Vec<&'static str> {
        vec![]
    }
    /// runs `n` generated cases on this thread; returns the shrunk failing case
    fn run_generated(
        &self,
        tier: Tier,
        seed: u64,
        n: u64,
        stats: &mut Stats,
    ) -> Option<(Value, Failure)>;
    /// checks one case given as JSON (replay path, bypasses proptest)
    fn replay(&self, case: &Value, stats: &mut Stats) -> Result<CheckResult, String>;
    /// deterministic / exhaustive sub-sweeps that are not generated (C20, C10)
    fn extra(&self, _tier: Tier, _seed: u64, _stats: &mut Stats) -> Vec<(Value, Failure)> {
        vec![]
    }
    /// extra keys for the coverage object
    /// Deterministic sweeps that are run one per fresh process (large ontologies; a crash of the
    /// library - stack overflow, abort - then ends that process only). Each value is a case
    /// understood by `replay`.
    fn isolated_plans(&self, _tier: Tier, _seed: u64) -> Vec<Value> {
        Vec::new()
    }

    fn coverage_extra(&self, _tier: Tier, _stats: &Stats) -> BTreeMap<String, Value> {
        BTreeMap::new()
    }
}

static CURRENT_PROP: std::sync::Mutex<String> = std::sync::Mutex::new(String::new());

/// The property whose cases are being generated in this process (for the known-findings filter).
pub fn set_current_prop(id: &str) {
    *CURRENT_PROP.lock().unwrap() = id.to_string();
}

pub fn splitmix(mut x: u64) -> u64 {
    x = x.wrapping_add(0x9E3779B97F4A7C15);
    let mut z = x;
    z = (z ^ (z >> 30)).wrapping_mul(0xBF58476D1CE4E5B9);
    z = (z ^ (z >> 27)).wrapping_mul(0x94D049BB133111EB);
    z ^ (z >> 31)
}

pub fn thread_seed(seed: u64, prop: &str, thread: u64) -> u64 {
    splitmix(splitmix(seed ^ hash_str(prop)).wrapping_add(thread))
}

/// Runs a typed strategy/check pair with proptest and returns the shrunk failure.
pub fn run_typed<C, F>(
    strategy: BoxedStrategy<C>,
    seed: u64,
    n: u64,
    stats: &mut Stats,
    check: F,
) -> Option<(Value, Failure)>
where
    C: std::fmt::Debug + Clone + Serialize + 'static,
    F: Fn(&C, &mut Stats) -> CheckResult,
{
    let config = Config {
        cases: n as u32,
        failure_persistence: None,
        rng_seed: RngSeed::Fixed(seed),
        max_shrink_iters: 3000,
        max_global_rejects: 1_000_000,
        verbose: 0,
        ..Config::default()
    };
    if let Some(len) = *REGEN_ONLY.lock().unwrap() {
        let hist: RefCell<std::collections::VecDeque<Value>> = RefCell::new(std::collections::VecDeque::new());
        let mut regen = TestRunner::new(Config { max_shrink_iters: 0, ..config });
        let _ = regen.run(&strategy, |c| {
            let mut h = hist.borrow_mut();
            h.push_back(serde_json::to_value(&c).unwrap_or(Value::Null));
            if h.len() > len {
                h.pop_front();
            }
            Ok(())
        });
        stats.failure_history = hist.into_inner().into_iter().collect();
        return None;
    }
    let mut runner = TestRunner::new(config);
    let cases_before = stats.cases;
    let st = RefCell::new(std::mem::take(stats));
    let failed = Cell::new(false);
    // failures listed as known findings do not end the search (they are counted and reported
    // once by the parent): otherwise every campaign would stop at the first known failure
    let known = KnownFindings::load(&verif_root().join("KNOWN_FINDINGS.txt"));
    let prop_id = CURRENT_PROP.lock().unwrap().clone();
    // set by the parent when this worker died in an earlier attempt: every case is written out
    // before it is checked, so that the case that kills the process is known afterwards
    let trace = std::env::var_os("VERIF_TRACE_FILE").map(PathBuf::from);
    let result = runner.run(&strategy, |c| {
        if let Some(t) = &trace {
            let _ = std::fs::write(t, serde_json::to_string(&c).unwrap_or_default());
        }
        let mut s = st.borrow_mut();
        if failed.get() {
            s.frozen = true;
        } else {
            s.cases += 1;
            if s.first_case.is_none() {
                s.first_case = Some(serde_json::to_value(&c).unwrap_or(Value::Null));
            }
        }
        match check(&c, &mut s) {
            Ok(()) => Ok(()),
            Err(f) if !failed.get() && known.get(&prop_id, &f.signature).is_some() => {
                *s.known_hits.entry(f.signature).or_insert(0) += 1;
                Ok(())
            }
            Err(f) => {
                failed.set(true);
                s.frozen = true;
                Err(TestCaseError::fail(f.signature))
            }
        }
    });
    *stats = st.into_inner();
    stats.frozen = false;
    if matches!(result, Err(TestError::Fail(..))) {
        // generation is a pure function of the seed: re-generate (without checking) the cases up
        // to the first failing one and keep the last HISTORY_LEN of them
        let upto = stats.cases - cases_before;
        let hist: RefCell<std::collections::VecDeque<Value>> = RefCell::new(std::collections::VecDeque::new());
        let mut regen = TestRunner::new(Config {
            cases: upto.min(u64::from(u32::MAX)) as u32,
            failure_persistence: None,
            rng_seed: RngSeed::Fixed(seed),
            max_shrink_iters: 0,
            max_global_rejects: 1_000_000,
            verbose: 0,
            ..Config::default()
        });
        let _ = regen.run(&strategy, |c| {
            let mut h = hist.borrow_mut();
            h.push_back(serde_json::to_value(&c).unwrap_or(Value::Null));
            if h.len() > history_len() {
                h.pop_front();
            }
            Ok(())
        });
        stats.failure_history = hist.into_inner().into_iter().collect();
    }
    match result {
        Ok(()) => None,
        Err(TestError::Fail(_, value)) => {
            // re-derive the failure of the shrunk value
            let mut scratch = Stats {
                frozen: true,
                ..Default::default()
            };
            // the library seeds its hash maps randomly, so a case may fail only
            // for some iteration orders: retry before calling it irreproducible
            let mut f = None;
            for _ in 0..REPLAY_RETRIES {
                if let Err(e) = check(&value, &mut scratch) {
                    f = Some(e);
                    break;
                }
            }
            let f = f.unwrap_or(Failure {
                signature: "flaky/not-reproducible".into(),
                message: format!("shrunk case passed {REPLAY_RETRIES} times when re-checked"),
            });
            Some((serde_json::to_value(&value).unwrap_or(Value::Null), f))
        }
        Err(TestError::Abort(r)) => Some((
            Value::Null,
            Failure {
                signature: "harness/abort".into(),
                message: format!("proptest aborted: {r}"),
            },
        )),
    }
}

/// How many preceding cases a worker hands over with a failure.
pub const HISTORY_LEN: usize = 48;

/// `VERIF_HISTORY_LEN` overrides the length (used to exercise the longer-history fallback).
fn history_len() -> usize {
    std::env::var("VERIF_HISTORY_LEN").ok().and_then(|v| v.parse().ok()).unwrap_or(HISTORY_LEN)
}

/// `Some(len)`: `run_typed` only generates (no checks) and keeps the last `len` cases in
/// `Stats::failure_history` (used by `--regen` to obtain a longer history of a worker).
pub static REGEN_ONLY: std::sync::Mutex<Option<usize>> = std::sync::Mutex::new(None);

pub fn replay_typed<C, F>(case: &Value, stats: &mut Stats, check: F) -> Result<CheckResult, String>
where
    C: DeserializeOwned,
    F: Fn(&C, &mut Stats) -> CheckResult,
{
    let c: C = serde_json::from_value(case.clone()).map_err(|e| format!("cannot parse case: {e}"))?;
    stats.cases += 1;
    Ok(check(&c, stats))
}

// ---------------------------------------------------------------------------
// known findings
// ---------------------------------------------------------------------------

#[derive(Debug, Default)]
pub struct KnownFindings {
    /// (property, signature) -> description
    pub known: BTreeMap<(String, String), String>,
}

impl KnownFindings {
    pub fn load(path: &Path) -> KnownFindings {
        let mut k = KnownFindings::default();
        let Ok(text) = std::fs::read_to_string(path) else {
            return k;
        };
        for line in text.lines() {
            let line = line.trim();
            // only `known:` lines suppress; `fixed:` lines are documentation
            let Some(rest) = line.strip_prefix("known:") else {
                continue;
            };
            let mut prop = None;
            let mut sig = None;
            let mut desc = Vec::new();
            for tok in rest.split_whitespace() {
                if let Some(p) = tok.strip_prefix("property=") {
                    prop = Some(p.to_string());
                } else if let Some(s) = tok.strip_prefix("signature=") {
                    sig = Some(s.to_string());
                } else {
                    desc.push(tok);
                }
            }
            if let (Some(p), Some(s)) = (prop, sig) {
                k.known.insert((p, s), desc.join(" "));
            }
        }
        k
    }
    pub fn get(&self, prop: &str, sig: &str) -> Option<&String> {
        self.known.get(&(prop.to_string(), sig.to_string()))
    }
}

// ---------------------------------------------------------------------------
// driver
// ---------------------------------------------------------------------------

pub struct RunOutcome {
    pub exit: i32,
}

pub fn verif_root() -> PathBuf {
    std::env::var("VERIF_ROOT")
        .map(PathBuf::from)
        .unwrap_or_else(|_| PathBuf::from("/verif"))
}

fn n_threads() -> usize {
    std::env::var("VERIF_THREADS")
        .ok()
        .and_then(|v| v.parse().ok())
        .unwrap_or_else(|| {
            std::thread::available_parallelism()
                .map(|n| n.get())
                .unwrap_or(4)
                .min(16)
        })
}

pub fn write_violation_file(prop: &str, case: &Value, f: &Failure) -> PathBuf {
    write_violation(prop, case, f)
}

fn write_violation(prop: &str, case: &Value, f: &Failure) -> PathBuf {
    let dir = verif_root().join("out").join("violations");
    let _ = std::fs::create_dir_all(&dir);
    let mut h = Fnv::new();
    h.bytes(serde_json::to_string(case).unwrap_or_default().as_bytes());
    let sig: String = f
        .signature
        .chars()
        .map(|c| if c.is_ascii_alphanumeric() || c == '-' { c } else { '_' })
        .collect();
    let path = dir.join(format!("{prop}-{sig}-{:016x}.json", h.finish()));
    let doc = json!({
        "property": prop,
        "signature": f.signature,
        "message": f.message,
        "case": case,
    });
    let _ = std::fs::write(&path, serde_json::to_string_pretty(&doc).unwrap());
    path
}

/// Runs a property: replays, extra sweeps, generated cases. Writes evidence.
pub fn run_property(p: &dyn Property, tier: Tier, seed: u64) -> RunOutcome {
    let start = Instant::now();
    let root = verif_root();
    let known = KnownFindings::load(&root.join("KNOWN_FINDINGS.txt"));
    let mut total = Stats::default();
    let mut failures: Vec<(Value, Failure, String)> = Vec::new(); // case, failure, origin

    // 1. replay tier: committed regression inputs
    let replay_dir = root.join("replays").join(p.id());
    let mut replayed = 0u64;
    if let Ok(rd) = std::fs::read_dir(&replay_dir) {
        let mut files: Vec<PathBuf> = rd.filter_map(|e| e.ok().map(|e| e.path())).collect();
        files.sort();
        for f in files {
            if f.extension().and_then(|e| e.to_str()) != Some("json") {
                continue;
            }
            let Ok(text) = std::fs::read_to_string(&f) else { continue };
            let Ok(doc) = serde_json::from_str::<Value>(&text) else {
                eprintln!("replay file {} is not JSON", f.display());
                return RunOutcome { exit: 2 };
            };
            let case = doc.get("case").cloned().unwrap_or(doc);
            replayed += 1;
            match replay_case(p, &case, &mut total) {
                Ok(Ok(())) => {}
                Ok(Err(fl)) => failures.push((case, fl, format!("replay:{}", f.display()))),
                Err(e) => {
                    eprintln!("replay file {}: {e}", f.display());
                    return RunOutcome { exit: 2 };
                }
            }
        }
    }
    total.count("replayed_files", replayed);

    // 2. deterministic sub-sweeps
    for (case, fl) in p.extra(tier, seed, &mut total) {
        failures.push((case, fl, "sweep".into()));
    }
    let plans = p.isolated_plans(tier, seed);
    let plan_children: Vec<(Value, Option<std::process::Child>)> = plans.into_iter().map(|c| { let ch = spawn_isolated(p, &c); (c, ch) }).collect();

    // 3. generated cases: one proptest runner per worker. Workers are separate
    //    processes (the library allocates and frees an 80 MB id table per
    //    ontology; threads of one process serialise on the address-space lock).
    let threads = n_threads() as u64;
    let n = p.cases(tier);
    let per = n.div_ceil(threads);
    let results: Vec<(Stats, Option<(Value, Failure)>)> = if std::env::var("VERIF_INPROCESS").is_ok() {
        run_workers_in_threads(p, tier, seed, threads, per)
    } else {
        run_workers_as_processes(p, tier, seed, threads, per)
    };
    // the isolated sweeps ran beside the workers
    for (case, child) in plan_children {
        match child.map(wait_isolated) {
            Some(Iso::Done(st, None)) => total.merge(st),
            Some(Iso::Done(st, Some(fl))) => {
                total.merge(st);
                failures.push((case, fl, "sweep".into()));
            }
            Some(Iso::Crash(status)) => failures.push((case, Failure { signature: "crash/sweep".into(), message: format!("the process running this sweep ended with {status}") }, "sweep".into())),
            _ => failures.push((case, Failure { signature: "harness/sweep".into(), message: "cannot run the sweep in a child process".into() }, "sweep".into())),
        }
    }

    let mut workers_failed = 0u64;
    let mut histories: BTreeMap<String, (Vec<Value>, u64, u64)> = BTreeMap::new();
    for (t, (mut st, r)) in results.into_iter().enumerate() {
        let hist = std::mem::take(&mut st.failure_history);
        let k = st.cases;
        total.merge(st);
        if let Some((case, fl)) = r {
            workers_failed += 1;
            if !hist.is_empty() {
                histories.entry(fl.signature.clone()).or_insert((hist, t as u64, k));
            }
            failures.push((case, fl, "generated".into()));
        }
    }
    // how many of the independent workers found a failure (a margin for the sensitivity runs)
    total.count("workers_with_failure", workers_failed);

    // known findings hit (and skipped) by the workers
    let mut known_from_workers: Vec<(String, u64)> = total.known_hits.iter().map(|(k, v)| (k.clone(), *v)).collect();
    known_from_workers.sort();
    // classify failures
    let mut violations = 0;
    let mut harness_errors = 0;
    let mut seen: BTreeSet<String> = BTreeSet::new();
    let mut known_printed: BTreeSet<String> = BTreeSet::new();
    // one report per failure class: keep the smallest case of each signature
    failures.sort_by_key(|(case, fl, _)| (fl.signature.clone(), serde_json::to_string(case).map(|s| s.len()).unwrap_or(0)));
    failures.dedup_by(|b, a| a.1.signature == b.1.signature);
    for (case, fl, origin) in &failures {
        if fl.signature.starts_with("flaky/") {
            if let Some((hcase, hfl)) = histories.get(&fl.signature).and_then(|h| confirm_with_longer_histories(p, tier, seed, per, h)) {
                report_history_violation(p, &hcase, &hfl, &mut seen, &mut violations);
                continue;
            }
        }
        if fl.signature.starts_with("harness/") || fl.signature.starts_with("flaky/") {
            eprintln!("INCONCLUSIVE {}: {} ({origin})", fl.signature, fl.message);
            harness_errors += 1;
            continue;
        }
        if let Some(desc) = known.get(p.id(), &fl.signature) {
            if known_printed.insert(fl.signature.clone()) {
                println!("KNOWN-FINDING: property={} signature={} {}", p.id(), fl.signature, desc);
            }
            continue;
        }
        // a failure that killed its process is confirmed in fresh processes only (twice)
        if fl.signature.starts_with("crash/") {
            let again = |c: &Value| matches!(spawn_isolated(p, c).map(wait_isolated), Some(Iso::Crash(_)));
            if !case.is_null() && again(case) && again(case) {
                let path = write_violation(p.id(), case, fl);
                if seen.insert(format!("{}", path.display())) {
                    violations += 1;
                    println!("VIOLATION property={} replay={}", p.id(), path.display());
                    println!("  signature: {}", fl.signature);
                    println!("  origin:    {origin} (the library ends the process on this in-domain input; reproduced in two fresh processes with a 256 MB stack)");
                    println!("  message:   {}", fl.message);
                }
            } else {
                eprintln!("INCONCLUSIVE: {} ({origin}): {} - not reproduced from the single case", fl.signature, fl.message);
                harness_errors += 1;
            }
            continue;
        }
        // confirm through the plain replay path before reporting
        let mut scratch = Stats::default();
        let mut confirmed = false;
        for _ in 0..REPLAY_RETRIES {
            match replay_case(p, case, &mut scratch) {
                Ok(Ok(())) => {}
                _ => {
                    confirmed = true;
                    break;
                }
            }
        }
        if !confirmed {
            // the failure may depend on what the library remembers from earlier calls: replay
            // the worker's preceding cases, in order, in a fresh process
            if let Some((hcase, hfl)) = histories.get(&fl.signature).and_then(|h| confirm_with_longer_histories(p, tier, seed, per, h)) {
                report_history_violation(p, &hcase, &hfl, &mut seen, &mut violations);
                continue;
            }
        }
        if !confirmed {
            eprintln!(
                "INCONCLUSIVE: failure {} did not reproduce through replay ({origin}): {}",
                fl.signature, fl.message
            );
            harness_errors += 1;
            continue;
        }
        let path = write_violation(p.id(), case, fl);
        let key = format!("{}", path.display());
        if seen.insert(key) {
            violations += 1;
            println!("VIOLATION property={} replay={}", p.id(), path.display());
            println!("  signature: {}", fl.signature);
            println!("  origin:    {origin}");
            let msg: String = fl.message.chars().take(1500).collect();
            println!("  message:   {msg}");
        }
    }

    for (sig, n) in &known_from_workers {
        if known_printed.insert(sig.clone()) {
            let desc = known.get(p.id(), sig).cloned().unwrap_or_default();
            println!("KNOWN-FINDING: property={} signature={} {} ({} generated cases hit it; the search continued)", p.id(), sig, desc, n);
        }
    }
    // required labels
    let mut missing = Vec::new();
    if violations == 0 {
        for l in p.required_labels(tier) {
            if total.labels.get(l).copied().unwrap_or(0) == 0 {
                missing.push(l);
            }
        }
    }

    // evidence
    let wall = start.elapsed().as_secs_f64();
    let mut coverage = serde_json::Map::new();
    coverage.insert("evaluations".into(), json!(total.evaluations.max(total.cases)));
    coverage.insert("generated_cases".into(), json!(total.cases));
    coverage.insert("distinct_nontrivial".into(), json!(total.nontrivial.len()));
    coverage.insert("rule".into(), json!(p.rule()));
    total.samples.retain(|v| serde_json::to_string(v).map(|t| t.len() <= 20_000).unwrap_or(false));
    if total.first_case.as_ref().is_some_and(|v| serde_json::to_string(v).map(|t| t.len() > 20_000).unwrap_or(true)) {
        total.first_case = None;
    }
    if total.samples.is_empty() {
        if let Some(fc) = total.first_case.take() {
            total.samples.push(json!({"note": "no non-trivial sample recorded; first generated case", "case": fc}));
        } else {
            total.samples.push(json!({"note": "no generated case ran"}));
        }
    }
    coverage.insert("samples".into(), json!(total.samples));
    coverage.insert("labels".into(), json!(total.labels));
    coverage.insert("counters".into(), json!(total.counters));
    coverage.insert("threads".into(), json!(threads));
    coverage.insert(
        "known_findings_hit".into(),
        json!(known_printed.iter().collect::<Vec<_>>()),
    );
    for (k, v) in p.coverage_extra(tier, &total) {
        coverage.insert(k, v);
    }
    let evidence = json!({
        "property_id": p.id(),
        "tier": tier.name(),
        "seed": seed,
        "level": p.level(),
        "coverage": Value::Object(coverage),
        "assumptions": p.assumptions(),
        "wall_s": wall,
        "violations": violations,
    });
    // sensitivity runs (mutants, seeded changes) must not overwrite the evidence of the real tree
    let ev_dir = std::env::var("VERIF_EVIDENCE_DIR").map(PathBuf::from).unwrap_or_else(|_| root.join("evidence"));
    let _ = std::fs::create_dir_all(&ev_dir);
    let ev_path = ev_dir.join(format!("{}.json", p.id()));
    if let Err(e) = std::fs::write(&ev_path, serde_json::to_string_pretty(&evidence).unwrap() + "\n") {
        eprintln!("cannot write evidence: {e}");
        return RunOutcome { exit: 2 };
    }
    println!(
        "{} {}: cases={} evaluations={} nontrivial={} violations={} known={} workers_failed={}/{} wall={:.1}s",
        p.id(),
        tier.name(),
        total.cases,
        total.evaluations,
        total.nontrivial.len(),
        violations,
        known_printed.len(),
        workers_failed,
        threads,
        wall
    );
    if violations > 0 {
        return RunOutcome { exit: 1 };
    }
    if harness_errors > 0 {
        return RunOutcome { exit: 2 };
    }
    if !missing.is_empty() {
        eprintln!("INCONCLUSIVE: required case classes never generated: {missing:?}");
        return RunOutcome { exit: 2 };
    }
    RunOutcome { exit: 0 }
}

pub enum Iso {
    /// the child ran the case: its statistics and the failure, if any
    Done(Stats, Option<Failure>),
    /// the child was ended by a signal / abort
    Crash(String),
    Unreadable,
}

/// Starts `hpo_verif --plan <ID> <file>`: one case replayed in a fresh process on a 256 MB stack.
fn spawn_isolated(p: &dyn Property, case: &Value) -> Option<std::process::Child> {
    use std::sync::atomic::{AtomicU64, Ordering};
    static N: AtomicU64 = AtomicU64::new(0);
    let dir = verif_root().join("out").join("tmp");
    std::fs::create_dir_all(&dir).ok()?;
    let file = dir.join(format!("plan-{}-{}-{}.json", p.id(), std::process::id(), N.fetch_add(1, Ordering::Relaxed)));
    std::fs::write(&file, serde_json::to_string(case).ok()?).ok()?;
    std::process::Command::new(std::env::current_exe().ok()?)
        .args(["--plan", p.id()])
        .arg(&file)
        .stdin(std::process::Stdio::null())
        .stdout(std::process::Stdio::piped())
        .stderr(std::process::Stdio::null())
        .spawn()
        .ok()
}

fn wait_isolated(child: std::process::Child) -> Iso {
    match child.wait_with_output() {
        Ok(out) if out.status.success() => {
            let text = String::from_utf8_lossy(&out.stdout);
            match text.lines().rev().find(|l| l.starts_with('{')).map(serde_json::from_str::<WorkerOut>) {
                Some(Ok(w)) => Iso::Done(w.stats, w.failure.map(|(_, signature, message)| Failure { signature, message })),
                _ => Iso::Unreadable,
            }
        }
        Ok(out) => Iso::Crash(format!("{}", out.status)),
        Err(_) => Iso::Unreadable,
    }
}

/// Entry point of `hpo_verif --plan <ID> <file>`.
pub fn plan_main(p: &dyn Property, file: &Path) -> i32 {
    set_current_prop(p.id());
    let case: Value = match std::fs::read_to_string(file).ok().and_then(|t| serde_json::from_str(&t).ok()) {
        Some(c) => c,
        None => return 2,
    };
    let _ = std::fs::remove_file(file);
    let out = std::thread::scope(|sc| {
        std::thread::Builder::new()
            .stack_size(256 << 20)
            .spawn_scoped(sc, || {
                let mut st = Stats::default();
                let r = replay_case(p, &case, &mut st);
                (st, r)
            })
            .expect("spawn")
            .join()
    });
    let out = match out {
        Ok((stats, Ok(r))) => WorkerOut { stats, failure: r.err().map(|f| (Value::Null, f.signature, f.message)) },
        Ok((stats, Err(e))) => WorkerOut { stats, failure: Some((Value::Null, "harness/plan".into(), e)) },
        Err(payload) => {
            let msg = payload.downcast_ref::<&str>().map(|s| s.to_string()).or_else(|| payload.downcast_ref::<String>().cloned()).unwrap_or_else(|| "<non-string payload>".into());
            WorkerOut { stats: Stats::default(), failure: Some((Value::Null, "harness/thread-panic".into(), format!("plan thread panicked: {msg}"))) }
        }
    };
    println!("{}", serde_json::to_string(&out).unwrap());
    0
}

fn report_history_violation(p: &dyn Property, case: &Value, fl: &Failure, seen: &mut BTreeSet<String>, violations: &mut u64) {
    let path = write_violation(p.id(), case, fl);
    if seen.insert(format!("{}", path.display())) {
        *violations += 1;
        println!("VIOLATION property={} replay={}", p.id(), path.display());
        println!("  signature: {}", fl.signature);
        println!("  origin:    generated (fails only after the preceding calls of the same process: {} cases in the replay file)", case.get("history").and_then(|h| h.as_array()).map_or(0, |a| a.len()));
        let msg: String = fl.message.chars().take(1500).collect();
        println!("  message:   {msg}");
    }
}

/// Replays `history` (cases in order) in a fresh process. Returns the failure when one occurs.
fn history_fails(p: &dyn Property, history: &[Value]) -> Option<Failure> {
    let dir = verif_root().join("out").join("tmp");
    std::fs::create_dir_all(&dir).ok()?;
    let file = dir.join(format!("history-{}-{}.json", p.id(), std::process::id()));
    let doc = serde_json::json!({"property": p.id(), "case": {"history": history}});
    std::fs::write(&file, serde_json::to_string(&doc).ok()?).ok()?;
    let out = std::process::Command::new(std::env::current_exe().ok()?).arg("--replay").arg(&file).stdin(std::process::Stdio::null()).output().ok()?;
    let _ = std::fs::remove_file(&file);
    if out.status.code() != Some(1) {
        return None;
    }
    let text = String::from_utf8_lossy(&out.stdout);
    let grab = |key: &str| text.lines().find_map(|l| l.trim_start().strip_prefix(key).map(|r| r.trim().to_string())).unwrap_or_default();
    Some(Failure { signature: grab("signature:"), message: grab("message:") })
}

/// Confirms a history in a fresh process and shortens it (suffixes, then single removals) under a
/// fixed budget of attempts. Returns the replay case `{"history": [...]}` and its failure.
fn confirm_history(p: &dyn Property, history: &[Value]) -> Option<(Value, Failure)> {
    let mut fl = history_fails(p, history)?;
    let mut cur: Vec<Value> = history.to_vec();
    let mut budget = 60;
    // shortest failing suffix by doubling
    let mut k = 1;
    while k < cur.len() && budget > 0 {
        budget -= 1;
        if let Some(f) = history_fails(p, &cur[cur.len() - k..]) {
            cur = cur[cur.len() - k..].to_vec();
            fl = f;
            break;
        }
        k *= 2;
    }
    // drop single elements (never the last one)
    let mut i = 0;
    while i + 1 < cur.len() && budget > 0 {
        budget -= 1;
        let mut t = cur.clone();
        t.remove(i);
        if let Some(f) = history_fails(p, &t) {
            cur = t;
            fl = f;
        } else {
            i += 1;
        }
    }
    Some((serde_json::json!({"history": cur}), fl))
}

/// The worker's last 48 cases first; when they do not reproduce the failure (the state may stem from a
/// much earlier call) the worker's cases are generated again in a fresh process and its last 400, then
/// 4000 cases are tried.
fn confirm_with_longer_histories(p: &dyn Property, tier: Tier, seed: u64, per: u64, h: &(Vec<Value>, u64, u64)) -> Option<(Value, Failure)> {
    let (hist, worker, k) = h;
    if let Some(r) = confirm_history(p, hist) {
        return Some(r);
    }
    let _ = per;
    for len in [400u64, 4000] {
        if *k <= history_len() as u64 || (len > 400 && *k <= 400) {
            break;
        }
        let dir = verif_root().join("out").join("tmp");
        std::fs::create_dir_all(&dir).ok()?;
        let file = dir.join(format!("regen-{}-{}-{len}.json", p.id(), std::process::id()));
        let ok = std::process::Command::new(std::env::current_exe().ok()?)
            .args(["--regen", p.id(), tier.name(), &seed.to_string(), &worker.to_string(), &k.to_string(), &len.to_string()])
            .arg(&file)
            .stdin(std::process::Stdio::null())
            .stdout(std::process::Stdio::null())
            .stderr(std::process::Stdio::null())
            .status()
            .map(|s| s.success())
            .unwrap_or(false);
        let long: Option<Vec<Value>> = if ok { std::fs::read_to_string(&file).ok().and_then(|t| serde_json::from_str(&t).ok()) } else { None };
        let _ = std::fs::remove_file(&file);
        if let Some(r) = long.and_then(|l| confirm_history(p, &l)) {
            return Some(r);
        }
    }
    None
}

/// Entry point of `hpo_verif --regen <ID> <tier> <seed> <worker> <cases> <len> <file>`: writes the last
/// `len` of the first `cases` cases of that worker as a JSON array.
pub fn regen_main(p: &dyn Property, tier: Tier, seed: u64, index: u64, cases: u64, len: usize, file: &Path) -> i32 {
    set_current_prop(p.id());
    *REGEN_ONLY.lock().unwrap() = Some(len);
    let hist = std::thread::scope(|sc| {
        std::thread::Builder::new()
            .stack_size(256 << 20)
            .spawn_scoped(sc, || {
                let mut st = Stats::default();
                let _ = p.run_generated(tier, thread_seed(seed, p.id(), index), cases, &mut st);
                st.failure_history
            })
            .expect("spawn")
            .join()
            .unwrap_or_default()
    });
    match std::fs::write(file, serde_json::to_string(&hist).unwrap_or_default()) {
        Ok(()) => 0,
        Err(_) => 2,
    }
}

/// Replays one case; a case of the form `{"history": [c1, .., cn]}` is a sequence of cases replayed
/// in order on one thread (for failures that depend on earlier calls).
pub fn replay_case(p: &dyn Property, case: &Value, st: &mut Stats) -> Result<CheckResult, String> {
    // a panic that escapes a check (every call the checks expect to panic is caught where it is made) is a
    // failure of the case, not of the run
    let one = |c: &Value, st: &mut Stats| -> Result<CheckResult, String> {
        match crate::observe::guarded(|| p.replay(c, st)) {
            Ok(r) => r,
            Err(msg) => Ok(Err(Failure { signature: "panic/outside-the-guarded-calls".into(), message: format!("the check of this case panicked: {msg}") })),
        }
    };
    if let Some(h) = case.get("history").and_then(|h| h.as_array()) {
        for c in h {
            match one(c, st)? {
                Ok(()) => {}
                Err(f) => return Ok(Err(f)),
            }
        }
        return Ok(Ok(()));
    }
    one(case, st)
}

fn run_workers_in_threads(p: &dyn Property, tier: Tier, seed: u64, threads: u64, per: u64) -> Vec<(Stats, Option<(Value, Failure)>)> {
    set_current_prop(p.id());
    std::thread::scope(|sc| {
        let mut hs = Vec::new();
        for t in 0..threads {
            hs.push(
                std::thread::Builder::new()
                    .stack_size(256 << 20)
                    .spawn_scoped(sc, move || {
                        let mut st = Stats::default();
                        let r = p.run_generated(tier, thread_seed(seed, p.id(), t), per, &mut st);
                        (st, r)
                    })
                    .expect("spawn"),
            );
        }
        hs.into_iter()
            .map(|h| match h.join() {
                Ok(r) => r,
                Err(payload) => {
                    let msg = payload
                        .downcast_ref::<&str>()
                        .map(|s| s.to_string())
                        .or_else(|| payload.downcast_ref::<String>().cloned())
                        .unwrap_or_else(|| "<non-string payload>".into());
                    (
                        Stats::default(),
                        Some((
                            Value::Null,
                            Failure {
                                signature: "harness/thread-panic".into(),
                                message: format!("worker panicked: {msg}"),
                            },
                        )),
                    )
                }
            })
            .collect()
    })
}

/// Output of one worker process (JSON on stdout).
#[derive(Serialize, serde::Deserialize)]
pub struct WorkerOut {
    pub stats: Stats,
    pub failure: Option<(Value, String, String)>,
}

/// Entry point of `hpo_verif --worker <ID> <tier> <seed> <index> <cases>`.
pub fn worker_main(p: &dyn Property, tier: Tier, seed: u64, index: u64, per: u64) -> i32 {
    set_current_prop(p.id());
    let out = std::thread::scope(|sc| {
        std::thread::Builder::new()
            .stack_size(256 << 20)
            .spawn_scoped(sc, move || {
                let mut st = Stats::default();
                let r = p.run_generated(tier, thread_seed(seed, p.id(), index), per, &mut st);
                (st, r)
            })
            .expect("spawn")
            .join()
    });
    let out = match out {
        Ok((stats, r)) => WorkerOut {
            stats,
            failure: r.map(|(c, f)| (c, f.signature, f.message)),
        },
        Err(payload) => {
            let msg = payload
                .downcast_ref::<&str>()
                .map(|s| s.to_string())
                .or_else(|| payload.downcast_ref::<String>().cloned())
                .unwrap_or_else(|| "<non-string payload>".into());
            WorkerOut {
                stats: Stats::default(),
                failure: Some((Value::Null, "harness/thread-panic".into(), format!("worker panicked: {msg}"))),
            }
        }
    };
    println!("{}", serde_json::to_string(&out).unwrap());
    0
}

fn run_workers_as_processes(p: &dyn Property, tier: Tier, seed: u64, threads: u64, per: u64) -> Vec<(Stats, Option<(Value, Failure)>)> {
    let exe = std::env::current_exe().expect("current_exe");
    let mut children = Vec::new();
    for t in 0..threads {
        let child = std::process::Command::new(&exe)
            .args(["--worker", p.id(), tier.name(), &seed.to_string(), &t.to_string(), &per.to_string()])
            .stdin(std::process::Stdio::null())
            .stdout(std::process::Stdio::piped())
            .stderr(std::process::Stdio::inherit())
            .spawn();
        children.push(child);
    }
    let mut res = Vec::new();
    for (t, child) in children.into_iter().enumerate() {
        let harness = |m: String| {
            (
                Stats::default(),
                Some((
                    Value::Null,
                    Failure {
                        signature: "harness/worker".into(),
                        message: m,
                    },
                )),
            )
        };
        let child = match child {
            Ok(c) => c,
            Err(e) => {
                res.push(harness(format!("cannot spawn worker {t}: {e}")));
                continue;
            }
        };
        match child.wait_with_output() {
            Ok(out) if out.status.success() => {
                let text = String::from_utf8_lossy(&out.stdout);
                match text.lines().rev().find(|l| l.starts_with('{')).map(serde_json::from_str::<WorkerOut>) {
                    Some(Ok(w)) => res.push((
                        w.stats,
                        w.failure.map(|(c, signature, message)| (c, Failure { signature, message })),
                    )),
                    _ => res.push(harness(format!("worker {t}: unreadable output"))),
                }
            }
            Ok(out) => {
                // the worker was ended by a signal (stack overflow, abort): run it once more with a
                // trace file to learn which case does it
                let dir = verif_root().join("out").join("tmp");
                let _ = std::fs::create_dir_all(&dir);
                let trace = dir.join(format!("trace-{}-{}-{t}.json", p.id(), std::process::id()));
                let again = std::process::Command::new(&exe)
                    .args(["--worker", p.id(), tier.name(), &seed.to_string(), &t.to_string(), &per.to_string()])
                    .env("VERIF_TRACE_FILE", &trace)
                    .stdin(std::process::Stdio::null())
                    .stdout(std::process::Stdio::null())
                    .stderr(std::process::Stdio::null())
                    .status();
                let case = std::fs::read_to_string(&trace).ok().and_then(|t| serde_json::from_str::<Value>(&t).ok());
                let _ = std::fs::remove_file(&trace);
                match (again, case) {
                    (Ok(st), Some(case)) if !st.success() => res.push((
                        Stats::default(),
                        Some((case, Failure { signature: "crash/generated".into(), message: format!("worker {t} ended with {} (twice); the case it was checking is in the replay file", out.status) })),
                    )),
                    _ => res.push(harness(format!("worker {t} ended with {} (not again with a trace file)", out.status))),
                }
            }
            Err(e) => res.push(harness(format!("worker {t}: {e}"))),
        }
    }
    res
}

/// Replays one file (a violation file or a committed replay file).
pub fn replay_file(props: &[Box<dyn Property>], path: &Path) -> i32 {
    let Ok(text) = std::fs::read_to_string(path) else {
        eprintln!("cannot read {}", path.display());
        return 2;
    };
    let Ok(doc) = serde_json::from_str::<Value>(&text) else {
        eprintln!("not JSON: {}", path.display());
        return 2;
    };
    let Some(pid) = doc.get("property").and_then(|v| v.as_str()) else {
        eprintln!("no \"property\" key in {}", path.display());
        return 2;
    };
    let Some(p) = props.iter().find(|p| p.id() == pid) else {
        eprintln!("unknown property {pid}");
        return 2;
    };
    let case = doc.get("case").cloned().unwrap_or(Value::Null);
    // same stack size as the workers (the library recurses along is_a chains)
    let res = std::thread::scope(|sc| {
        std::thread::Builder::new()
            .stack_size(256 << 20)
            .spawn_scoped(sc, || {
                let mut st = Stats::default();
                let mut res = replay_case(p.as_ref(), &case, &mut st);
                for _ in 1..REPLAY_RETRIES {
                    if !matches!(res, Ok(Ok(()))) || case.get("history").is_some() {
                        break;
                    }
                    res = replay_case(p.as_ref(), &case, &mut st);
                }
                res
            })
            .expect("spawn")
            .join()
            .unwrap_or_else(|_| Err("replay thread panicked".into()))
    });
    match res {
        Ok(Ok(())) => {
            println!("replay {}: property {} holds on this case", path.display(), pid);
            0
        }
        Ok(Err(f)) => {
            println!("VIOLATION property={} replay={}", pid, path.display());
            println!("  signature: {}", f.signature);
            println!("  message:   {}", f.message);
            1
        }
        Err(e) => {
            eprintln!("{e}");
            2
        }
    }
}
