//! C11 — distances and paths between terms are valid walks of minimal length.

use crate::gen::{self, GenCfg};
use crate::model::*;
use crate::observe::guarded;
use crate::runner::*;
use crate::ensure;
use hpo::annotations::AnnotationId;
use hpo::similarity::{Builtins, Distance, Similarity};
use hpo::term::InformationContentKind;
use serde_json::{json, Value};

pub struct C11;

pub fn check(f: &Facts, stats: &mut Stats) -> CheckResult {
    // one standard ontology in four is written as JAX files (in a spelling derived from the facts) and loaded
    // from there: the text reader assembles the parent links as well
    let text = f.has_term(1) && f.has_term(118) && f.canonical_hash() % 4 == 1;
    let built = if text {
        super::common::build_path(f, super::common::PathSel::Jax, &Default::default()).map(|o| (o, "jax"))
    } else {
        super::common::build_auto(f)
    };
    let (ont, via) = match built {
        Ok(o) => o,
        Err(e) => return fail("construct", e),
    };
    check_on(&ont, f, via, stats)?;
    // one small ontology in three also yields a sub-ontology (what it remembers of its source must not show in
    // distances and paths): the same questions are asked of it, against the facts restricted to the retained terms
    let m = Model::new(f);
    let h = f.canonical_hash();
    if m.len() >= 3 && m.len() <= 22 && h % 3 == 0 {
        let (root, leaves) = super::common::sub_request(&m, (h >> 8) as u16, [(h >> 24) as u16, (h >> 40) as u16, (h >> 48) as u16]);
        let sub = guarded(|| {
            let rt = ont.hpo(root).unwrap();
            let lt: Vec<hpo::HpoTerm> = leaves.iter().map(|l| ont.hpo(*l).unwrap()).collect();
            ont.sub_ontology(rt, lt)
        });
        if let Ok(Ok(sub)) = sub {
            let kept: std::collections::BTreeSet<u32> = sub.hpos().map(|t| t.id().as_u32()).collect();
            if kept.iter().all(|t| m.has(*t)) {
                let expected = super::common::restricted_facts(f, &kept);
                stats.label("sub-ontology");
                return check_on(&sub, &expected, "sub_ontology", stats);
            }
        }
    }
    Ok(())
}

fn check_on(ont: &hpo::Ontology, f: &Facts, via: &str, stats: &mut Stats) -> CheckResult {
    stats.count(&format!("path:{via}"), 1);
    if f.terms.iter().any(|t| t.obsolete) {
        stats.label("obsolete-terms");
    }
    if (0..3).all(|k| f.recs[k].iter().any(|r| !r.terms.is_empty())) {
        stats.label("annotated-with-all-kinds");
    }
    if f.terms.len() > 31 && f.terms.len() < 150 {
        stats.label("ancestors>30");
    }
    // (the Builder API ignores flags; with own v3 bytes they are present)
    let m = Model::new(f);
    let huge = m.len() > 5000;
    let up: Vec<_> = if huge { Vec::new() } else { m.ids.iter().map(|i| m.up_dist(*i)).collect() };
    let mut shortcut = false;
    let mut tie = false;
    let mut unreachable = false;
    // large graphs (the sweeps): a stride of the ordered pairs plus every pair that involves one of the
    // three smallest / largest ids (the library's search is quadratic in the depth per pair); for
    // more than 5000 terms a fixed number of sampled pairs
    let big = m.len() > 150;
    let n_ids = m.len();
    let sampled: Vec<(usize, usize)> = if huge {
        (0..1500usize)
            .flat_map(|i| {
                let a = (i * 7919 + 3) % n_ids;
                [(a, (a * 31 + i * 104_729 + 1) % n_ids), (a, a / 2), (a / 3, a), (a, a)]
            })
            .collect()
    } else {
        Vec::new()
    };
    let all_pairs: Box<dyn Iterator<Item = (usize, usize)>> = if huge { Box::new(sampled.into_iter()) } else { Box::new((0..n_ids).flat_map(move |a| (0..n_ids).map(move |b| (a, b)))) };
    for (ia, ib) in all_pairs {
        let (a, b) = (&m.ids[ia], &m.ids[ib]);
        let ta = ont.hpo(*a).unwrap();
        {
            // (beyond 700 terms the stride is 64 times wider and only every 53rd of the border pairs is asked)
            let very_big = n_ids > 700;
            let border = ia < 3 || ib < 3 || ia + 3 >= n_ids || ib + 3 >= n_ids;
            if !huge && big && (ia * 31 + ib * 17) % (if very_big { 97 * 64 } else { 97 }) != 0 && !(border && (!very_big || (ia + ib) % 53 == 0)) {
                continue;
            }
            let (tmp_a, tmp_b);
            let (up_a, up_b) = if huge {
                tmp_a = m.up_dist(*a);
                tmp_b = m.up_dist(*b);
                (&tmp_a, &tmp_b)
            } else {
                (&up[ia], &up[ib])
            };
            let tb = ont.hpo(*b).unwrap();
            stats.eval(1);
            let r = guarded(|| -> CheckResult {
                // ---- ancestor distance / path
                let u = up_a.get(b).copied();
                let d = ta.distance_to_ancestor(&tb);
                ensure!(d == u, "distance_to_ancestor", "{a}.distance_to_ancestor({b}) = {d:?}, shortest parent chain has {u:?} links");
                let p = ta.path_to_ancestor(&tb).map(|v| v.iter().map(|x| x.as_u32()).collect::<Vec<u32>>());
                match (&p, u) {
                    (None, None) => {}
                    (Some(path), Some(u)) => {
                        ensure!(path.len() == u, "path_to_ancestor/length", "{a}.path_to_ancestor({b}) = {path:?} has {} links, shortest chain has {u}", path.len());
                        let mut prev = *a;
                        for x in path {
                            ensure!(m.has(prev) && m.parents[m.i(prev)].contains(x), "path_to_ancestor/not-a-parent-link", "{a}.path_to_ancestor({b}) = {path:?}: {x} is not a parent of {prev}");
                            prev = *x;
                        }
                        ensure!(prev == *b, "path_to_ancestor/end", "{a}.path_to_ancestor({b}) = {path:?} does not end in {b}");
                    }
                    _ => return fail("path_to_ancestor/presence", format!("{a}.path_to_ancestor({b}) = {p:?} but ancestor distance is {u:?}")),
                }
                // ---- term distance
                let exp = up_a.iter().filter_map(|(c, x)| up_b.get(c).map(|y| x + y)).min();
                let d = ta.distance_to_term(&tb);
                ensure!(d == exp, "distance_to_term", "{a}.distance_to_term({b}) = {d:?}, minimum over common ancestors is {exp:?}");
                let d2 = tb.distance_to_term(&ta);
                ensure!(d2 == d, "distance_to_term/asymmetric", "distance_to_term({a},{b}) = {d:?} but ({b},{a}) = {d2:?}");
                // ---- Distance similarity
                let want = exp.map_or(0.0f32, |n| 1.0 / (n as f32 + 1.0));
                let s1 = Distance::new().calculate(&ta, &tb);
                let s2 = Builtins::Distance(InformationContentKind::Omim).calculate(&ta, &tb);
                let s3 = ta.similarity_score(&tb, &Distance::new());
                ensure!(s1 == want && s2 == want && s3 == want, "distance-similarity", "Distance similarity of ({a},{b}) = {s1}/{s2}/{s3}, expected 1/({exp:?}+1) = {want}");
                // ---- path between distinct terms
                if a != b {
                    let p = ta.path_to_term(&tb).map(|v| v.iter().map(|x| x.as_u32()).collect::<Vec<u32>>());
                    match (&p, exp) {
                        (None, None) => {}
                        (Some(path), Some(dist)) => {
                            let mut prev = *a;
                            for x in path {
                                ensure!(
                                    m.has(*x) && (m.parents[m.i(prev)].contains(x) || m.children[m.i(prev)].contains(x)),
                                    "path_to_term/not-a-link",
                                    "{a}.path_to_term({b}) = {path:?}: step {prev} -> {x} is neither a parent nor a child link"
                                );
                                prev = *x;
                            }
                            ensure!(prev == *b, "path_to_term/end", "{a}.path_to_term({b}) = {path:?} does not end in {b}");
                            let class = if up_a.contains_key(b) || up_b.contains_key(a) { "ancestor-pair" } else { "general" };
                            ensure!(path.len() == dist, format!("path_to_term/length/{class}"), "{a}.path_to_term({b}) = {path:?} has {} steps but distance_to_term is {dist}", path.len());
                        }
                        _ => return fail("path_to_term/presence", format!("{a}.path_to_term({b}) = {p:?} but distance is {exp:?}")),
                    }
                }
                Ok(())
            });
            match r {
                Ok(r) => r?,
                Err(p) => return fail("paths/panic", format!("path/distance query on ({a},{b}) panicked: {p}")),
            }
            // classification
            let exp = up_a.iter().filter_map(|(c, x)| up_b.get(c).map(|y| x + y)).min();
            if let (Some(u), Some(d)) = (up_a.get(b), exp) {
                if *u > d {
                    shortcut = true;
                }
            }
            if let Some(d) = exp {
                let n = up_a.iter().filter(|(c, x)| up_b.get(*c).is_some_and(|y| **x + *y == d)).count();
                if n > 1 && a != b {
                    tie = true;
                }
            } else {
                unreachable = true;
            }
        }
    }
    if shortcut {
        stats.label("shorter-route-over-higher-ancestor");
    }
    if tie {
        stats.label("tie");
    }
    if unreachable {
        stats.label("no-common-ancestor");
    }
    if m.has_diamond() {
        stats.label("diamond");
    }
    if shortcut || tie {
        stats.label("nontrivial");
        stats.nontrivial(f.canonical_hash());
        if shortcut {
            stats.sample(|| json!({"edges_child_parent": f.edges, "terms": m.ids, "class": "ancestor reachable by a long chain, shorter route over a higher common ancestor"}));
        }
    }
    Ok(())
}

/// A spine of 31-40 terms (so that deep terms have more than 30 ancestors) with 1-4 side branches of
/// depth 1-3 hanging off random spine nodes; ids are a random assignment of a dense or sparse range,
/// so that branch ids fall between spine ids in every possible way. No diamonds: the library's route
/// enumeration stays linear.
fn spine_with_branches() -> impl proptest::strategy::Strategy<Value = Facts> {
    use proptest::prelude::*;
    (31usize..=40, proptest::collection::vec((any::<u16>(), 1usize..=3), 1..=4), proptest::collection::vec(any::<u16>(), 56), any::<bool>()).prop_map(|(len, branches, keys, sparse)| {
        let total = len + branches.iter().map(|b| b.1).sum::<usize>();
        // random injective id assignment
        let mut order: Vec<(u16, usize)> = (0..total).map(|i| (keys[i % keys.len()].wrapping_add((i / keys.len()) as u16 * 7919), i)).collect();
        order.sort();
        let mut id_of = vec![0u32; total];
        for (rank, (_, node)) in order.iter().enumerate() {
            id_of[*node] = if sparse { 10 + rank as u32 * 97 + u32::from(keys[rank % keys.len()] % 90) } else { 1 + rank as u32 };
        }
        let mut f = Facts::default();
        for i in 0..len {
            f.terms.push(TermFact { id: id_of[i], name: format!("s{i}"), obsolete: false, replacement: None });
            if i > 0 {
                f.edges.push((id_of[i], id_of[i - 1]));
            }
        }
        let mut next = len;
        for (at, depth) in &branches {
            let mut parent = id_of[crate::gen::pick(*at, len)];
            for d in 0..*depth {
                f.terms.push(TermFact { id: id_of[next], name: format!("b{next}_{d}"), obsolete: false, replacement: None });
                f.edges.push((id_of[next], parent));
                parent = id_of[next];
                next += 1;
            }
        }
        f
    })
}

fn strategy(tier: Tier) -> proptest::strategy::BoxedStrategy<Facts> {
    let max = if tier == Tier::Quick { 16 } else { 22 };
    use proptest::prelude::*;
    prop_oneof![
        // (two thirds of the ontologies carry gene / disease annotations: distances and paths must not depend on them)
        16 => gen::facts(GenCfg::small().terms(1, max).recs(0)),
        16 => gen::facts(GenCfg::small().terms(1, max).recs(4)),
        16 => gen::facts(GenCfg::small().terms(2, max).recs(4).standard().with_flags(true).names(crate::gen::NameMode::Capped)),
        // more than 30 ancestors (beyond the inline capacity of an id group): chains and fans only,
        // the library's route enumeration is exponential in the number of alternative routes
        1 => gen::facts(GenCfg::small().terms(32, 46).recs(2).shapes(&[1, 3, 1, 1])),
        1 => spine_with_branches(),
    ]
    .boxed()
}

/// A ladder of `d` stacked two-parent diamonds below HP:0000001 (2^d upward routes from its bottom to the top) and a
/// bypass of two links from the bottom to the top over a term with a larger id than every ladder term. Only the
/// pairs (bottom, top), (bottom, bypass), (bypass, top) and a ladder term of every level against top and bottom are
/// asked: the number of routes makes every query expensive.
pub fn check_ladder(d: u32, stats: &mut Stats) -> CheckResult {
    let mut f = Facts::default();
    f.terms.push(TermFact { id: 1, name: "top".into(), obsolete: false, replacement: None });
    let node = |level: u32, side: u32| 10 + level * 2 + side;
    for level in 0..d {
        for side in 0..2 {
            f.terms.push(TermFact { id: node(level, side), name: format!("l{level}s{side}"), obsolete: false, replacement: None });
            if level == 0 {
                f.edges.push((node(level, side), 1));
            } else {
                f.edges.push((node(level, side), node(level - 1, 0)));
                f.edges.push((node(level, side), node(level - 1, 1)));
            }
        }
    }
    let (bottom, bypass) = (5u32, 9000u32);
    f.terms.push(TermFact { id: bottom, name: "bottom".into(), obsolete: false, replacement: None });
    f.terms.push(TermFact { id: bypass, name: "bypass".into(), obsolete: false, replacement: None });
    f.edges.push((bottom, node(d - 1, 0)));
    f.edges.push((bottom, node(d - 1, 1)));
    f.edges.push((bottom, bypass));
    f.edges.push((bypass, 1));
    let ont = crate::build::via_builder(&f, crate::build::Finish::Minimal).map_err(|e| Failure { signature: "construct/builder".into(), message: e })?;
    let m = Model::new(&f);
    let mut pairs = vec![(bottom, 1), (bottom, bypass), (bypass, 1), (1, bottom)];
    for level in (0..d).step_by(3) {
        pairs.push((node(level, 1), 1));
        pairs.push((bottom, node(level, 0)));
        pairs.push((node(level, 0), bypass));
    }
    for (a, b) in pairs {
        stats.eval(1);
        let (ta, tb) = (ont.hpo(a).unwrap(), ont.hpo(b).unwrap());
        let (ua, ub) = (m.up_dist(a), m.up_dist(b));
        let r = guarded(|| -> CheckResult {
            let want = ua.get(&b).copied();
            let got = ta.distance_to_ancestor(&tb);
            ensure!(got == want, "distance_to_ancestor", "ladder of {d} diamonds: {a}.distance_to_ancestor({b}) = {got:?}, shortest parent chain has {want:?} links");
            let plen = ta.path_to_ancestor(&tb).map(|p| p.len());
            ensure!(plen == want, "path_to_ancestor/length", "ladder of {d} diamonds: {a}.path_to_ancestor({b}) has {plen:?} links, shortest chain has {want:?}");
            let exp = ua.iter().filter_map(|(c, x)| ub.get(c).map(|y| x + y)).min();
            let (d1, d2) = (ta.distance_to_term(&tb), tb.distance_to_term(&ta));
            ensure!(d1 == exp && d2 == exp, "distance_to_term", "ladder of {d} diamonds: distance_to_term({a},{b}) = {d1:?} / {d2:?}, minimum over common ancestors is {exp:?}");
            if a != b {
                let p = ta.path_to_term(&tb).map(|p| p.len());
                ensure!(p == exp, "path_to_term/length/ladder", "ladder of {d} diamonds: {a}.path_to_term({b}) has {p:?} steps, distance is {exp:?}");
            }
            Ok(())
        });
        match r {
            Ok(r) => r?,
            Err(p) => return fail("paths/panic", format!("ladder of {d} diamonds, pair ({a},{b}): {p}")),
        }
    }
    stats.label("ladder>=16-diamonds");
    Ok(())
}

impl Property for C11 {
    fn id(&self) -> &'static str {
        "C11"
    }
    fn rule(&self) -> String {
        "Generated: acyclic graphs (Builder, own v3 bytes with obsolete / replaced terms, or - one standard ontology in four - JAX files in a spelling derived from the facts) weighted toward chains with shortcuts to a much higher ancestor, diamond ladders (ties), several roots and detached terms (<=16 terms quick / 22 thorough); ALL ordered pairs; one ontology in three additionally yields a sub-ontology (generated root and leaves), which is asked the same questions against the facts restricted to the retained terms. Fixed shapes in their own processes: chains of 262-270 links, 65 700 terms (sampled pairs), a term with 300 direct parents, and a ladder of 18 stacked diamonds (2^18 upward routes) with a two-link bypass over a term with a larger id. Oracle: upward BFS distances u(x,c) on the facts; distance_to_ancestor = u or None; path_to_ancestor is a chain of parent links of exactly that length ending in the ancestor; distance_to_term = min over common ancestors (terms included) of u(a,c)+u(b,c), symmetric, None iff no common ancestor; for a != b path_to_term exists iff the distance does, every step is a parent or child link, it ends in b and has exactly distance steps (validity predicate: ties admit several paths); Distance similarity = 1/(d+1) or 0. evaluations = ordered pairs. Non-trivial = graph with a pair where one term is an ancestor of the other but a strictly shorter route exists over a higher common ancestor, or a tie between two routes; distinct by canonical facts.".into()
    }
    fn assumptions(&self) -> Vec<String> {
        vec!["is_a graph acyclic; path_to_term(a,a) (documented to return [a]) is outside the property and not checked".into()]
    }
    fn cases(&self, tier: Tier) -> u64 {
        match tier {
            Tier::Quick => 100_000,
            Tier::Thorough => 1_000_000,
        }
    }
    fn required_labels(&self, _tier: Tier) -> Vec<&'static str> {
        vec!["nontrivial", "obsolete-terms", "shorter-route-over-higher-ancestor", "tie", "no-common-ancestor", "diamond", "depth>255", "annotated-with-all-kinds", "ancestors>30", "bulk>65535-terms", "sub-ontology", "direct-parents>255", "ladder>=16-diamonds"]
    }
    fn run_generated(&self, tier: Tier, seed: u64, n: u64, stats: &mut Stats) -> Option<(Value, Failure)> {
        run_typed(strategy(tier), seed, n, stats, check)
    }
    fn replay(&self, case: &Value, stats: &mut Stats) -> Result<CheckResult, String> {
        if let Some(b) = case.get("bulk") {
            // more than 65 535 terms (see `bulk_facts`), a fixed number of sampled pairs
            let v: (u32, u32) = serde_json::from_value(b.clone()).map_err(|e| e.to_string())?;
            stats.cases += 1;
            let r = check(&super::common::bulk_facts(v.0, v.1, 0), stats);
            if r.is_ok() {
                stats.label("bulk>65535-terms");
            }
            return Ok(r);
        }
        if let Some(b) = case.get("deep") {
            // a plain is_a chain deeper than 255 links with side leaves (distances up to `depth`)
            let v: (u32, u32) = serde_json::from_value(b.clone()).map_err(|e| e.to_string())?;
            stats.cases += 1;
            let r = check(&super::common::deep_chain_facts(v.0, v.1, 0, 0), stats);
            if r.is_ok() {
                stats.label("depth>255");
            }
            return Ok(r);
        }
        if let Some(b) = case.get("ladder") {
            let d: u32 = serde_json::from_value(b.clone()).map_err(|e| e.to_string())?;
            stats.cases += 1;
            return Ok(check_ladder(d, stats));
        }
        if let Some(b) = case.get("fanin") {
            // one term with more direct parents than an 8-bit counter holds
            let v: (u32, u32) = serde_json::from_value(b.clone()).map_err(|e| e.to_string())?;
            stats.cases += 1;
            let r = check(&super::common::fanin_facts(v.0, v.1, 0), stats);
            if r.is_ok() {
                stats.label("direct-parents>255");
            }
            return Ok(r);
        }
        replay_typed::<Facts, _>(case, stats, check)
    }
    fn isolated_plans(&self, tier: Tier, seed: u64) -> Vec<Value> {
        let _ = seed;
        let mut out = vec![json!({"deep": (270u32, 7919u32)}), json!({"deep": (262u32, 104_729u32)}), json!({"bulk": (65_700u32, 7919u32)}), json!({"fanin": (300u32, 7919u32)}), json!({"ladder": 18u32})];
        if tier == Tier::Thorough {
            out.push(json!({"deep": (600u32, 1_299_709u32)}));
        }
        out
    }
}
