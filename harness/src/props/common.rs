//! Shared case type "facts pushed through one construction path".

use crate::build::*;
use crate::gen::{self, GenCfg, NameMode};
use crate::model::*;
use crate::observe::*;
use crate::runner::*;
use hpo::Ontology;
use proptest::prelude::*;
use serde::{Deserialize, Serialize};

#[derive(Clone, Copy, Debug, PartialEq, Eq, Serialize, Deserialize, Hash)]
pub enum PathSel {
    /// Builder API, `build_minimal`
    Builder,
    /// Builder API, `build_with_defaults`
    BuilderDefaults,
    /// own encoder, format version 1/2/3 → `from_bytes`
    Bin(u8),
    /// own encoder v3 → `from_bytes` → `as_bytes` → `from_bytes`
    RoundTrip,
    /// rendered JAX files → `from_standard`
    Jax,
    /// rendered JAX files → `from_standard_transitive`
    JaxT,
    /// own v3 encoding → `from_bytes` → `sub_ontology(root, leaves)`; root and
    /// leaves are picked (always validly) from the source by these indices
    Sub { root: u16, leaves: [u16; 3] },
}

impl PathSel {
    pub fn name(self) -> String {
        match self {
            PathSel::Builder => "builder".into(),
            PathSel::BuilderDefaults => "builder-defaults".into(),
            PathSel::Bin(v) => format!("bin-v{v}"),
            PathSel::RoundTrip => "as_bytes-roundtrip".into(),
            PathSel::Jax => "jax".into(),
            PathSel::JaxT => "jax-transitive".into(),
            PathSel::Sub { .. } => "sub_ontology".into(),
        }
    }
    pub fn defaults(self) -> bool {
        !matches!(self, PathSel::Builder | PathSel::Sub { .. })
    }
}

#[derive(Clone, Debug, Serialize, Deserialize, PartialEq)]
pub struct OntCase {
    pub facts: Facts,
    pub path: PathSel,
    #[serde(default)]
    pub noise: JaxNoise,
}

/// The facts the given path can express (what the result must equal).
pub fn expected_facts(f: &Facts, path: PathSel) -> Facts {
    match path {
        PathSel::Builder | PathSel::BuilderDefaults => {
            let mut g = f.clone();
            for t in &mut g.terms {
                t.obsolete = false;
                t.replacement = None;
            }
            g
        }
        PathSel::Bin(v) => restrict_to_version(f, v),
        PathSel::RoundTrip => restrict_to_version(f, 3),
        // the facts of a sub-ontology depend on the retained terms: see `build_case`
        PathSel::Sub { .. } => f.clone(),
        PathSel::Jax | PathSel::JaxT => {
            let mut g = f.clone();
            for k in 0..3 {
                g.recs[k].retain(|r| !r.terms.is_empty());
            }
            g.ann_calls.retain(|c| c.term.is_some());
            // `data-version: hp/releases/YYYY-MM-DD`
            g.version = (g.version.0 % 10000, g.version.1 % 13, g.version.2 % 32);
            // a line-based, tab-separated text file cannot carry control characters in a name
            for t in &mut g.terms {
                t.name = text_name(&t.name);
            }
            for k in 0..3 {
                for r in &mut g.recs[k] {
                    r.name = text_name(&r.name);
                }
            }
            for c in &mut g.ann_calls {
                if let Some(n) = &c.alt_name {
                    c.alt_name = Some(text_name(n));
                }
            }
            g
        }
    }
}

/// `name` with every control character, Unicode line separator and obo escape / comment / stanza
/// character replaced by '_'
pub fn text_name(name: &str) -> String {
    let bad = |c: char| c.is_control() || matches!(c, '\u{2028}' | '\u{2029}' | '!' | '[' | ']' | '\\' | '"');
    if name.chars().any(bad) {
        name.chars().map(|c| if bad(c) { '_' } else { c }).collect()
    } else {
        name.to_string()
    }
}

thread_local! {
    static SCRATCH: Scratch = Scratch::new("jax");
}

pub fn build_path(f: &Facts, path: PathSel, noise: &JaxNoise) -> Result<Ontology, String> {
    match path {
        // (every other fact set goes through the Builder with calls that fail and are ignored in between:
        // by C15 they leave no trace)
        PathSel::Builder if f.terms.len() % 2 == 1 => via_builder_with_failing_calls(f, Finish::Minimal),
        PathSel::BuilderDefaults if f.edges.len() % 2 == 1 => via_builder_with_failing_calls(f, Finish::Defaults),
        PathSel::Builder => via_builder(f, Finish::Minimal),
        PathSel::BuilderDefaults => via_builder(f, Finish::Defaults),
        PathSel::Bin(v) => via_binary(f, v),
        PathSel::RoundTrip => {
            let o = via_binary(f, 3)?;
            roundtrip(&o)
        }
        PathSel::Jax | PathSel::JaxT => {
            // properties that do not generate the spelling of the files themselves get one derived from the facts
            let derived;
            let noise = if *noise == JaxNoise::default() {
                derived = derived_noise(f);
                &derived
            } else {
                noise
            };
            // (and silent rows in phenotype.hpoa, unless the case brings its own)
            let mut with_rows = noise.clone();
            if with_rows.decipher_rows.is_empty() && with_rows.not_rows.is_empty() {
                (with_rows.decipher_rows, with_rows.not_rows) = silent_rows(&expected_facts(f, path));
            }
            SCRATCH.with(|s| via_jax(&expected_facts(f, path), &with_rows, path == PathSel::JaxT, s))
        }
        PathSel::Sub { root, leaves } => {
            let src = via_binary(f, 3)?;
            let m = Model::new(f);
            let (r, ls) = sub_request(&m, root, leaves);
            let rt = src.hpo(r).ok_or("root not found")?;
            let lt: Vec<hpo::HpoTerm> = ls.iter().filter_map(|l| src.hpo(*l)).collect();
            match guarded(|| src.sub_ontology(rt, lt)) {
                Ok(Ok(o)) => Ok(o),
                Ok(Err(e)) => Err(format!("sub_ontology(root={r}, leaves={ls:?}) error: {e}")),
                Err(p) => Err(format!("PANIC in sub_ontology(root={r}, leaves={ls:?}): {p}")),
            }
        }
    }
}

/// A valid sub-ontology request: any term as root, leaves among root and its descendants.
pub fn sub_request(m: &Model, root: u16, leaves: [u16; 3]) -> (u32, Vec<u32>) {
    let r = if root % 3 == 0 && m.has(1) { 1 } else { m.ids[crate::gen::pick(root, m.ids.len())] };
    let mut inside: Vec<u32> = m.desc[m.i(r)].iter().copied().collect();
    inside.push(r);
    let ls = leaves.iter().map(|p| inside[crate::gen::pick(*p, inside.len())]).collect();
    (r, ls)
}

/// The facts a sub-ontology must describe, given the set of retained terms
/// (which chain is retained among equally short ones is not specified).
pub fn restricted_facts(f: &Facts, kept: &std::collections::BTreeSet<u32>) -> Facts {
    let m = Model::new(f);
    let mods = m.default_modifier().unwrap_or_default();
    let mut exp = Facts::default();
    for t in &f.terms {
        if kept.contains(&t.id) && !exp.has_term(t.id) {
            exp.terms.push(t.clone());
        }
    }
    for (ch, p) in &f.edges {
        if kept.contains(ch) && kept.contains(p) {
            exp.edges.push((*ch, *p));
        }
    }
    let phenotype: std::collections::BTreeSet<u32> = kept.iter().copied().filter(|t| m.has(*t) && !m.is_modifier_with(*t, &mods)).collect();
    for k in 0..3 {
        for (rid, (name, terms)) in &m.direct[k] {
            if terms.iter().any(|t| phenotype.contains(t)) {
                exp.recs[k].push(RecFact { id: *rid, name: name.clone(), terms: terms.iter().copied().filter(|t| kept.contains(t)).collect() });
            }
        }
    }
    exp
}

/// Rows of phenotype.hpoa that describe nothing, as a function of the facts: rows of another database (also under the
/// number of an OMIM record of the facts) and negated rows (for a record of the facts and for a disease that occurs
/// only negated). Three fact sets in four get some.
pub fn silent_rows(f: &Facts) -> (Vec<(u32, u32)>, Vec<(u8, u32, String, u32)>) {
    let mut h = Fnv::new();
    h.u64(f.terms.len() as u64 ^ 0x5151);
    h.u64(f.edges.len() as u64);
    for k in 0..3 {
        h.u64(f.recs[k].len() as u64);
    }
    let x = h.finish();
    let b = |i: u32| (x >> i) as u8;
    let mut decipher_rows = Vec::new();
    let mut not_rows = Vec::new();
    if let Some(t) = f.terms.first() {
        if b(50) % 2 == 0 {
            decipher_rows.push((f.recs[OMIM].first().map_or(16, |r| r.id), t.id));
            decipher_rows.push((u32::from(b(52)), f.terms[f.terms.len() / 2].id));
        }
        if b(51) % 2 == 0 {
            let k = 1 + (b(53) % 2);
            if let Some(r) = f.recs[k as usize].first() {
                not_rows.push((k, r.id, text_name(&r.name), f.terms[f.terms.len() - 1].id));
            }
            let mut id = 900_000 + u32::from(b(54));
            while f.recs[k as usize].iter().any(|r| r.id == id) {
                id += 1;
            }
            not_rows.push((k, id, "only negated".to_string(), t.id));
        }
    }
    (decipher_rows, not_rows)
}

/// A spelling of the four files that is a function of the facts: half of the fact sets are written plainly, the
/// others with variations that leave the described ontology unchanged (position of the data-version line in the header, tag order inside stanzas, a term's is_a lines spread over two stanzas, other tags
/// before / after the name and between is_a lines, trailing modifiers on is_a lines, explicit `is_obsolete: false`,
/// [Typedef] stanzas, extra columns, no newline after the last line, DECIPHER rows and negated rows in phenotype.hpoa).
pub fn derived_noise(f: &Facts) -> JaxNoise {
    let mut h = Fnv::new();
    h.u64(f.terms.len() as u64);
    h.u64(f.edges.len() as u64);
    for t in f.terms.iter().take(4) {
        h.u64(u64::from(t.id));
    }
    for k in 0..3 {
        h.u64(f.recs[k].len() as u64);
    }
    let x = h.finish();
    if x & 1 == 0 {
        return JaxNoise::default();
    }
    let b = |i: u32| (x >> i) as u8;
    JaxNoise {
        tag_order: b(8) % 4,
        split_stanzas: b(56) % 4 == 0,
        header_order: b(57) % 3,
        extra_tags: if b(16) % 2 == 0 { vec![] } else { vec![b(20), b(28), b(36)] },
        isa_modifier: b(44) % 2 == 0,
        explicit_false: b(45) % 2 == 0,
        typedefs: b(46) % 3,
        extra_cols: b(48) % 2 == 0,
        eof: b(49) % 2,
        ..JaxNoise::default()
    }
}

pub fn noise_strategy() -> impl Strategy<Value = JaxNoise> {
    (
        0u8..2,
        proptest::collection::vec(any::<u8>(), 0..6),
        0u8..3,
        0u8..4,
        any::<bool>(),
        any::<bool>(),
        any::<bool>(),
        any::<bool>(),
    )
        .prop_map(|(gene_header, extra_tags, typedefs, comments, extra_cols, explicit_false, isa_modifier, blank_rows)| JaxNoise {
            no_header: false,
            // derived from two of the generated fields: half of the cases have the usual head
            hpoa_head: if comments % 2 == 0 { 0 } else { 1 + (typedefs + gene_header) % 3 },
            eof: if extra_tags.len() % 2 == 0 { 0 } else { 1 + (extra_tags[0] % 2) },
            long_lines: extra_tags.len() == 5 || (extra_tags.len() == 3 && extra_tags[0] % 2 == 0),
            tag_order: if extra_tags.len() % 3 == 1 { 1 + extra_tags[0] % 3 } else { 0 },
            split_stanzas: extra_tags.len() == 4 || (extra_tags.len() == 2 && extra_tags[1] % 2 == 0),
            header_order: if extra_tags.is_empty() { 0 } else { extra_tags[extra_tags.len() - 1] % 3 },
            gene_header,
            extra_tags,
            typedefs,
            not_rows: vec![],
            decipher_rows: vec![],
            comments,
            extra_cols,
            explicit_false,
            isa_modifier,
            blank_rows,
        })
}

/// Strategy over (facts, path): free-form facts through the Builder,
/// standard-flavour facts through every path.
pub fn ont_case_strategy(max_terms: usize, max_recs: usize, rich_names: bool) -> BoxedStrategy<OntCase> {
    let free = GenCfg::small().terms(1, max_terms).recs(max_recs).bulk().alt_names();
    let names = if rich_names { NameMode::Capped } else { NameMode::Plain };
    let std_cfg = GenCfg::small()
        .terms(2, max_terms)
        .recs(max_recs)
        .standard()
        .with_flags(true)
        .names(names)
        .bulk()
        .alt_names();
    let free_s = gen::facts(free).prop_map(|facts| OntCase {
        facts,
        path: PathSel::Builder,
        noise: JaxNoise::default(),
    });
    let std_s = (
        gen::facts(std_cfg),
        prop_oneof![
            Just(PathSel::BuilderDefaults),
            Just(PathSel::Bin(1)),
            Just(PathSel::Bin(2)),
            Just(PathSel::Bin(3)),
            Just(PathSel::RoundTrip),
            Just(PathSel::Jax),
            Just(PathSel::JaxT),
            (any::<u16>(), any::<[u16; 3]>()).prop_map(|(root, leaves)| PathSel::Sub { root, leaves }),
            (any::<u16>(), any::<[u16; 3]>()).prop_map(|(root, leaves)| PathSel::Sub { root, leaves }),
        ],
        noise_strategy(),
    )
        .prop_map(|(mut facts, path, mut noise)| {
            let sel = noise.comments.wrapping_mul(3).wrapping_add(noise.typedefs);
            maybe_headerless(&mut facts, path, &mut noise, sel);
            // sub_ontology searches shortest chains with a recursion that is exponential in the
            // number of alternative routes: keep that path to small graphs
            let path = if matches!(path, PathSel::Sub { .. }) && facts.terms.len() > 22 { PathSel::Bin(3) } else { path };
            OntCase { facts, path, noise }
        });
    prop_oneof![3 => free_s, 7 => std_s].boxed()
}

pub struct Built {
    pub ont: Ontology,
    pub expected: Facts,
    pub model: Model,
    pub snap: Snapshot,
}

/// Builds the ontology of a case, observes it. A construction failure on
/// in-domain facts is reported with signature `construct/<path>`.
pub fn build_case(c: &OntCase, stats: &mut Stats) -> Result<Built, Failure> {
    let mut expected = expected_facts(&c.facts, c.path);
    let ont = match build_path(&c.facts, c.path, &c.noise) {
        Ok(o) => o,
        Err(e) => {
            return fail(
                format!("construct/{}", c.path.name()),
                format!("construction failed on in-domain facts: {e}"),
            )
        }
    };
    if let PathSel::Sub { root, leaves } = c.path {
        use hpo::annotations::AnnotationId;
        let kept: std::collections::BTreeSet<u32> = guarded(|| ont.iter().map(|t| t.id().as_u32()).collect()).map_err(|p| Failure {
            signature: "observe-panic/sub_ontology".into(),
            message: p,
        })?;
        let m = Model::new(&c.facts);
        let (r, ls) = sub_request(&m, root, leaves);
        if !kept.contains(&r) || ls.iter().any(|l| !kept.contains(l)) || kept.iter().any(|t| !m.has(*t)) {
            return fail("construct/sub_ontology/term-set", format!("sub_ontology(root={r}, leaves={ls:?}) retains {kept:?}"));
        }
        expected = restricted_facts(&c.facts, &kept);
        // the release version of a sub-ontology is not specified
        expected.version = (0, 0, 0);
    }
    let model = Model::new(&expected);
    let snap = guarded(|| observe(&ont)).map_err(|p| Failure {
        signature: format!("observe-panic/{}", c.path.name()),
        message: p,
    })?;
    stats.count(&format!("path:{}", c.path.name()), 1);
    Ok(Built {
        ont,
        expected,
        model,
        snap,
    })
}

pub fn first_diff_failure(diffs: &[Diff], prefix: &str, path: PathSel) -> CheckResult {
    if let Some(d) = diffs.first() {
        let kind: String = d.what.split(' ').next().unwrap_or("").chars().take(24).collect();
        let all: Vec<String> = diffs.iter().take(6).map(|d| d.what.clone()).collect();
        return fail(
            format!("{prefix}/{}/{kind}", path.name()),
            format!("{} difference(s) to the reference model: {}", diffs.len(), all.join(" | ")),
        );
    }
    Ok(())
}

/// Builds facts through own v3 bytes when they can be expressed that way (both default roots
/// present, names fit) - obsolete flags and replacements then exist in the ontology - and through
/// the Builder API (build_minimal) otherwise. Used by checks whose case type is plain `Facts`.
pub fn build_auto(f: &Facts) -> Result<(Ontology, &'static str), String> {
    let std = f.has_term(1) && f.has_term(118) && f.terms.iter().all(|t| t.name.len() <= 255) && f.recs[GENE].iter().all(|r| r.name.len() <= 255);
    if std {
        via_binary(f, 3).map(|o| (o, "bin-v3"))
    } else {
        via_builder(f, Finish::Minimal).map(|o| (o, "builder"))
    }
}

/// One text-loader case in eight has no header block in hp.obo; the facts then carry version (0,0,0).
pub fn maybe_headerless(facts: &mut Facts, path: PathSel, noise: &mut JaxNoise, sel: u8) {
    if matches!(path, PathSel::Jax | PathSel::JaxT) && sel % 8 == 0 {
        noise.no_header = true;
        facts.version = (0, 0, 0);
    }
}

/// Facts of a large ontology: `n` terms (more than a 16-bit index addresses when n > 65 535) in
/// standard flavour. Node k (1-based; node 1 = HP:0000001, node 2 = HP:0000118, node 3 = a modifier
/// root) has the parents k/2 and, when different, k/3 (so multi-parent diamonds at every depth,
/// depth about log2 n); ids are scattered over the id space by a multiplicative map (id order is
/// unrelated to depth) and terms are supplied deepest first. Genes / OMIM / ORPHA records (`recs`
/// of each) sit on pseudo-random nodes.
pub fn bulk_facts(n: u32, mult: u32, recs: u32) -> Facts {
    const M: u64 = 9_999_991;
    let id_of = |k: u32| -> u32 {
        match k {
            1 => 1,
            2 => 118,
            _ => {
                // injective for k < M as long as mult is not a multiple of M; avoid 0, 1, 118
                let mut id = ((u64::from(k) * u64::from(mult)) % M) as u32 + 2;
                if id == 118 {
                    id = 9_999_998;
                }
                id
            }
        }
    };
    let mut f = Facts::default();
    f.version = (2024, 2, 29);
    for k in (1..=n).rev() {
        // every 13th node is flagged obsolete, every 26th names its predecessor as replacement
        // (the Builder path drops the flags: see `expected_facts`)
        let obsolete = k > 3 && k % 13 == 5;
        let replacement = if k > 3 && k % 26 == 5 { Some(id_of(k - 1)) } else { None };
        f.terms.push(TermFact { id: id_of(k), name: format!("n{k}"), obsolete, replacement });
        if k >= 2 {
            let (a, b) = (k / 2, k / 3);
            f.edges.push((id_of(k), id_of(a)));
            if b >= 1 && b != a {
                f.edges.push((id_of(k), id_of(b)));
            }
        }
    }
    let mut x = 0x2545F4914F6CDD1Du64 ^ u64::from(n);
    let mut next = || {
        x ^= x << 13;
        x ^= x >> 7;
        x ^= x << 17;
        x
    };
    for kind in 0..3 {
        for r in 1..=recs {
            let cnt = 1 + (next() % 3) as usize;
            let mut terms: Vec<u32> = (0..cnt).map(|_| id_of(1 + (next() % u64::from(n)) as u32)).collect();
            terms.sort_unstable();
            terms.dedup();
            for t in &terms {
                f.ann_calls.push(AnnCall { kind: kind as u8, rec: r, term: Some(*t), alt_name: None });
            }
            f.recs[kind].push(RecFact { id: r, name: format!("r{kind}_{r}"), terms });
        }
    }
    f
}

/// Facts with many records: N_gene = `ng`, N_omim = `no`, N_orpha = `nr` (each up to the documented
/// limit 65 535) on nine terms: a chain 1 <- 118 <- 10 <- 11 <- 12, a side branch 118 <- 20 with
/// 12 below it as well, a modifier root 5, and two children 30, 31 of 118 that carry all records but
/// one each. Records are spread over the other terms by residue; three have no term, every 7th has two.
pub fn large_record_facts(ng: u32, no: u32, nr: u32) -> Facts {
    let mut f = Facts::default();
    f.version = (2024, 1, 1);
    for (id, name) in [(1u32, "All"), (118, "Phenotypic abnormality"), (10, "a"), (11, "b"), (12, "c"), (20, "d"), (5, "Mode of inheritance"), (30, "nearly all"), (31, "nearly all too")] {
        f.terms.push(TermFact { id, name: name.into(), obsolete: false, replacement: None });
    }
    f.edges = vec![(118, 1), (5, 1), (10, 118), (11, 10), (12, 11), (20, 118), (12, 20), (30, 118), (31, 118)];
    let spots = [12u32, 11, 10, 20, 118, 12, 20, 11];
    for (k, n) in [(GENE, ng), (OMIM, no), (ORPHA, nr)] {
        for r in 0..n {
            let rid = r + 1;
            let mut terms = vec![];
            // three records of each kind have no term at all
            if ![5, 16, 27].contains(&r) {
                terms.push(spots[(r as usize + k) % spots.len()]);
                if r % 7 == 0 {
                    terms.push(spots[(r as usize / 7 + 3) % spots.len()]);
                }
                // two sibling terms carry nearly every record (information content of about 4/N each)
                if r != 1 {
                    terms.push(30);
                }
                if r != 2 {
                    terms.push(31);
                }
            }
            terms.sort_unstable();
            terms.dedup();
            for t in &terms {
                f.ann_calls.push(AnnCall { kind: k as u8, rec: rid, term: Some(*t), alt_name: None });
            }
            if terms.is_empty() {
                f.ann_calls.push(AnnCall { kind: k as u8, rec: rid, term: None, alt_name: None });
            }
            f.recs[k].push(RecFact { id: rid, name: format!("r{rid}"), terms });
        }
    }
    f
}

/// Facts of a deep ontology: an is_a chain of `depth` links below HP:0000118 (node k of the chain
/// has the parent k-1; every 37th node additionally has its grandparent as a redundant direct
/// parent and every 50th carries a side leaf), plus a modifier root. Ids are scattered, terms are
/// supplied deepest first. `recs` records of each kind sit on nodes spread over the whole depth,
/// some on the deepest node.
pub fn deep_facts(depth: u32, mult: u32, recs: u32) -> Facts {
    deep_chain_facts(depth, mult, recs, 37)
}

/// One term with `np` direct parents (more than an 8-bit counter holds; half of them below HP:0000118, half below
/// a second top-level term), a grandchild below it, and `recs` records per kind on the child, the grandchild
/// and some of the parents. The child is supplied before its parents; ids are scattered by `mult`.
pub fn fanin_facts(np: u32, mult: u32, recs: u32) -> Facts {
    const M: u64 = 9_999_991;
    let id_of = |k: u32| -> u32 {
        match k {
            0 => 1,
            1 => 118,
            _ => {
                let id = ((u64::from(k) * u64::from(mult)) % M) as u32 + 2;
                if id == 118 {
                    9_999_998
                } else {
                    id
                }
            }
        }
    };
    let mut f = Facts::default();
    f.version = (2024, 2, 29);
    let (branch, child, grandchild) = (id_of(2), id_of(3), id_of(4));
    let parent = |i: u32| id_of(5 + i);
    f.terms.push(TermFact { id: child, name: "many parents".into(), obsolete: false, replacement: None });
    f.terms.push(TermFact { id: grandchild, name: "below many parents".into(), obsolete: false, replacement: None });
    f.edges.push((grandchild, child));
    for i in (0..np).rev() {
        f.terms.push(TermFact { id: parent(i), name: format!("p{i}"), obsolete: false, replacement: None });
        f.edges.push((parent(i), if i % 2 == 0 { 118 } else { branch }));
        f.edges.push((child, parent(i)));
    }
    f.terms.push(TermFact { id: branch, name: "second branch".into(), obsolete: false, replacement: None });
    f.terms.push(TermFact { id: 118, name: "Phenotypic abnormality".into(), obsolete: false, replacement: None });
    f.terms.push(TermFact { id: 1, name: "All".into(), obsolete: false, replacement: None });
    f.edges.push((branch, 1));
    f.edges.push((118, 1));
    for k in 0..3 {
        for r in 0..recs {
            let t = match r % 3 {
                0 => child,
                1 => grandchild,
                _ => parent((r * 7 + k as u32) % np),
            };
            f.recs[k].push(RecFact { id: 10 + r, name: format!("rec{k}-{r}"), terms: vec![t] });
        }
    }
    f.ann_calls = f.canonical_ann_calls();
    f
}

/// `deep_facts` with a redundant grandparent link on every `shortcut_every`-th node (0: none; the
/// library's distance search enumerates all upward routes, so checks that call it use plain chains).
pub fn deep_chain_facts(depth: u32, mult: u32, recs: u32, shortcut_every: u32) -> Facts {
    const M: u64 = 9_999_991;
    let id_of = |k: u32| -> u32 {
        match k {
            0 => 1,
            1 => 118,
            _ => {
                let mut id = ((u64::from(k) * u64::from(mult)) % M) as u32 + 2;
                if id == 118 {
                    id = 9_999_998;
                }
                id
            }
        }
    };
    let mut f = Facts::default();
    f.version = (2023, 12, 31);
    let side = |k: u32| id_of(depth + 10 + k);
    for k in (0..=depth + 1).rev() {
        f.terms.push(TermFact { id: id_of(k), name: format!("d{k}"), obsolete: false, replacement: None });
        if k >= 1 {
            f.edges.push((id_of(k), id_of(k - 1)));
        }
        if k >= 3 && shortcut_every > 0 && k % shortcut_every == 0 {
            f.edges.push((id_of(k), id_of(k - 2)));
        }
        if k >= 2 && k % 50 == 0 {
            f.terms.push(TermFact { id: side(k), name: format!("s{k}"), obsolete: false, replacement: None });
            f.edges.push((side(k), id_of(k)));
        }
    }
    // a modifier root with one child
    f.terms.push(TermFact { id: side(1), name: "modifier".into(), obsolete: false, replacement: None });
    f.edges.push((side(1), 1));
    for kind in 0..3u32 {
        for r in 1..=recs {
            // the first record of each kind sits on the deepest node, the others every depth/recs levels
            let k = if r == 1 { depth + 1 } else { 2 + ((r + kind) * (depth / recs.max(1)).max(1)) % depth };
            let t = id_of(k);
            f.ann_calls.push(AnnCall { kind: kind as u8, rec: r, term: Some(t), alt_name: None });
            f.recs[kind as usize].push(RecFact { id: r, name: format!("r{kind}_{r}"), terms: vec![t] });
        }
        // one more record per kind is listed directly on a whole stretch of the lineage (every second / third /
        // fourth node, up to 170 of them: more than 100 direct terms, ancestors and descendants side by side)
        if recs > 0 && depth >= 200 {
            let step = 2 + kind;
            let mut terms: Vec<u32> = (0..170.min(depth / step)).map(|i| id_of(3 + i * step)).collect();
            terms.sort_unstable();
            for t in &terms {
                f.ann_calls.push(AnnCall { kind: kind as u8, rec: recs + 1, term: Some(*t), alt_name: None });
            }
            f.recs[kind as usize].push(RecFact { id: recs + 1, name: format!("r{kind}_wide"), terms });
        }
    }
    f
}
