//! Shared case type "facts pushed through one construction path".

use crate::build::*;
use crate::gen::{self, GenCfg, NameMode};
use crate::model::*;
use crate::observe::*;
use crate::runner::*;
use hpo::Ontology;
use proptest::prelude::*;
use serde::{Deserialize, Serialize};

#[derive(Clone, Copy, Debug, PartialEq, Eq, Serialize, Deserialize, Hash)]
pub enum PathSel {
    /// Builder API, `build_minimal`
    Builder,
    /// Builder API, `build_with_defaults`
    BuilderDefaults,
    /// own encoder, format version 1/2/3 → `from_bytes`
    Bin(u8),
    /// own encoder v3 → `from_bytes` → `as_bytes` → `from_bytes`
    RoundTrip,
    /// rendered JAX files → `from_standard`
    Jax,
    /// rendered JAX files → `from_standard_transitive`
    JaxT,
}

impl PathSel {
    pub fn name(self) -> String {
        match self {
            PathSel::Builder => "builder".into(),
            PathSel::BuilderDefaults => "builder-defaults".into(),
            PathSel::Bin(v) => format!("bin-v{v}"),
            PathSel::RoundTrip => "as_bytes-roundtrip".into(),
            PathSel::Jax => "jax".into(),
            PathSel::JaxT => "jax-transitive".into(),
        }
    }
    pub fn defaults(self) -> bool {
        !matches!(self, PathSel::Builder)
    }
}

#[derive(Clone, Debug, Serialize, Deserialize, PartialEq)]
pub struct OntCase {
    pub facts: Facts,
    pub path: PathSel,
    #[serde(default)]
    pub noise: JaxNoise,
}

/// The facts the given path can express (what the result must equal).
pub fn expected_facts(f: &Facts, path: PathSel) -> Facts {
    match path {
        PathSel::Builder | PathSel::BuilderDefaults => {
            let mut g = f.clone();
            for t in &mut g.terms {
                t.obsolete = false;
                t.replacement = None;
            }
            g
        }
        PathSel::Bin(v) => restrict_to_version(f, v),
        PathSel::RoundTrip => f.clone(),
        PathSel::Jax | PathSel::JaxT => {
            let mut g = f.clone();
            for k in 0..3 {
                g.recs[k].retain(|r| !r.terms.is_empty());
            }
            g.ann_calls.retain(|c| c.term.is_some());
            g
        }
    }
}

thread_local! {
    static SCRATCH: Scratch = Scratch::new("jax");
}

pub fn build_path(f: &Facts, path: PathSel, noise: &JaxNoise) -> Result<Ontology, String> {
    match path {
        PathSel::Builder => via_builder(f, Finish::Minimal),
        PathSel::BuilderDefaults => via_builder(f, Finish::Defaults),
        PathSel::Bin(v) => via_binary(f, v),
        PathSel::RoundTrip => {
            let o = via_binary(f, 3)?;
            roundtrip(&o)
        }
        PathSel::Jax => SCRATCH.with(|s| via_jax(&expected_facts(f, path), noise, false, s)),
        PathSel::JaxT => SCRATCH.with(|s| via_jax(&expected_facts(f, path), noise, true, s)),
    }
}

pub fn noise_strategy() -> impl Strategy<Value = JaxNoise> {
    (
        0u8..2,
        proptest::collection::vec(any::<u8>(), 0..6),
        0u8..3,
        0u8..4,
        any::<bool>(),
        any::<bool>(),
    )
        .prop_map(|(gene_header, extra_tags, typedefs, comments, extra_cols, explicit_false)| JaxNoise {
            gene_header,
            extra_tags,
            typedefs,
            not_rows: vec![],
            decipher_rows: vec![],
            comments,
            extra_cols,
            explicit_false,
        })
}

/// Strategy over (facts, path): free-form facts through the Builder,
/// standard-flavour facts through every path.
pub fn ont_case_strategy(max_terms: usize, max_recs: usize, rich_names: bool) -> BoxedStrategy<OntCase> {
    let free = GenCfg::small().terms(1, max_terms).recs(max_recs);
    let names = if rich_names { NameMode::Capped } else { NameMode::Plain };
    let std_cfg = GenCfg::small()
        .terms(2, max_terms)
        .recs(max_recs)
        .standard()
        .with_flags(true)
        .names(names);
    let free_s = gen::facts(free).prop_map(|facts| OntCase {
        facts,
        path: PathSel::Builder,
        noise: JaxNoise::default(),
    });
    let std_s = (
        gen::facts(std_cfg),
        prop_oneof![
            Just(PathSel::BuilderDefaults),
            Just(PathSel::Bin(1)),
            Just(PathSel::Bin(2)),
            Just(PathSel::Bin(3)),
            Just(PathSel::RoundTrip),
            Just(PathSel::Jax),
            Just(PathSel::JaxT),
        ],
        noise_strategy(),
    )
        .prop_map(|(facts, path, noise)| OntCase { facts, path, noise });
    prop_oneof![3 => free_s, 7 => std_s].boxed()
}

pub struct Built {
    pub ont: Ontology,
    pub expected: Facts,
    pub model: Model,
    pub snap: Snapshot,
}

/// Builds the ontology of a case, observes it. A construction failure on
/// in-domain facts is reported with signature `construct/<path>`.
pub fn build_case(c: &OntCase, stats: &mut Stats) -> Result<Built, Failure> {
    let expected = expected_facts(&c.facts, c.path);
    let ont = match build_path(&c.facts, c.path, &c.noise) {
        Ok(o) => o,
        Err(e) => {
            return fail(
                format!("construct/{}", c.path.name()),
                format!("construction failed on in-domain facts: {e}"),
            )
        }
    };
    let model = Model::new(&expected);
    let snap = guarded(|| observe(&ont)).map_err(|p| Failure {
        signature: format!("observe-panic/{}", c.path.name()),
        message: p,
    })?;
    stats.count(&format!("path:{}", c.path.name()), 1);
    Ok(Built {
        ont,
        expected,
        model,
        snap,
    })
}

pub fn first_diff_failure(diffs: &[Diff], prefix: &str, path: PathSel) -> CheckResult {
    if let Some(d) = diffs.first() {
        let kind: String = d.what.split(' ').next().unwrap_or("").chars().take(24).collect();
        let all: Vec<String> = diffs.iter().take(6).map(|d| d.what.clone()).collect();
        return fail(
            format!("{prefix}/{}/{kind}", path.name()),
            format!("{} difference(s) to the reference model: {}", diffs.len(), all.join(" | ")),
        );
    }
    Ok(())
}
