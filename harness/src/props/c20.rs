//! C20 — term-id text and byte conversions are total and mutually inverse.

use crate::gen::pick;
use crate::model::*;
use crate::observe::guarded;
use crate::runner::*;
use hpo::annotations::{AnnotationId, GeneId, OmimDiseaseId, OrphaDiseaseId};
use hpo::HpoTermId;
use proptest::prelude::*;
use serde_json::{json, Value};

pub struct C20;

/// Reference parser: `Some(v)` iff the text after the three-byte prefix is an
/// unsigned 32-bit decimal number in Rust's grammar (optional '+', ASCII digits).
pub fn reference_parse_u32(rest: &str) -> Option<u32> {
    let digits = rest.strip_prefix('+').unwrap_or(rest);
    if digits.is_empty() || !digits.bytes().all(|b| b.is_ascii_digit()) {
        return None;
    }
    let mut v: u64 = 0;
    for b in digits.bytes() {
        v = v * 10 + u64::from(b - b'0');
        if v > u64::from(u32::MAX) {
            return None;
        }
    }
    Some(v as u32)
}

pub fn reference_parse(s: &str) -> Option<u32> {
    if s.len() < 4 || !s.is_char_boundary(3) {
        return None;
    }
    reference_parse_u32(&s[3..])
}

pub fn check_string(s: &String, stats: &mut Stats) -> CheckResult {
    stats.eval(1);
    let exp = reference_parse(s);
    let got = match guarded(|| HpoTermId::try_from(s.as_str())) {
        Ok(r) => r,
        Err(p) => {
            let class = if s.len() >= 4 && !s.is_char_boundary(3) {
                "byte3-inside-char"
            } else {
                "other"
            };
            return fail(
                format!("try_from/panic/{class}"),
                format!("HpoTermId::try_from({s:?}) panicked: {p}"),
            );
        }
    };
    match (exp, &got) {
        (Some(v), Ok(id)) if id.as_u32() == v => {}
        (None, Err(_)) => {}
        _ => {
            return fail(
                "try_from/wrong-result",
                format!("HpoTermId::try_from({s:?}) = {:?}, expected {:?}", got.as_ref().map(|i| i.as_u32()).map_err(|e| e.to_string()), exp),
            )
        }
    }
    // the annotation ids parse the whole string
    let e2 = reference_parse_u32(s);
    let g = guarded(|| {
        (
            GeneId::try_from(s.as_str()).ok().map(|x| x.as_u32()),
            OmimDiseaseId::try_from(s.as_str()).ok().map(|x| x.as_u32()),
            OrphaDiseaseId::try_from(s.as_str()).ok().map(|x| x.as_u32()),
        )
    });
    match g {
        Ok((a, b, c)) if a == e2 && b == e2 && c == e2 => {}
        other => {
            return fail(
                "annotation-id/try_from",
                format!("Gene/Omim/OrphaId::try_from({s:?}) = {other:?}, expected {e2:?}"),
            )
        }
    }
    let boundary = s.len() >= 4 && s.is_char_boundary(3);
    if !s.is_ascii() {
        stats.label("non-ascii");
    }
    if s.len() >= 4 && !s.is_char_boundary(3) {
        stats.label("byte3-inside-char");
    }
    if exp.is_some() {
        stats.label("parses");
    }
    if s.len() < 4 {
        stats.label("short");
    }
    if s.len() > 64 {
        stats.label("longer-than-64-bytes");
        if !s.is_char_boundary(64) || (s.len() > 128 && !s.is_char_boundary(128)) || (s.len() > 256 && !s.is_char_boundary(256)) {
            stats.label("multi-byte-char-across-byte-64/128/256");
        }
    }
    if boundary && exp.is_none() {
        stats.label("rejected-body");
    }
    if boundary && s[3..].chars().any(|c| c.is_ascii_digit()) && s[3..].chars().any(|c| c.is_control() || c.is_whitespace()) {
        stats.label("digits-with-control-or-space");
    }
    // non-trivial: not the canonical rendering of an id
    if exp.map(|v| format!("HP:{v:07}")) != Some(s.clone()) {
        stats.nontrivial(hash_str(s));
        if !s.is_ascii() || exp.is_some() {
            stats.sample(|| json!({"input": s, "expected": exp}));
        }
    }
    Ok(())
}

fn check_id(v: u32) -> CheckResult {
    let id = HpoTermId::from_u32(v);
    let text = id.to_string();
    let want = format!("HP:{v:07}");
    crate::ensure!(text == want, "to_string", "HpoTermId({v}).to_string() = {text:?}, expected {want:?}");
    crate::ensure!(id.as_u32() == v, "as_u32", "from_u32({v}).as_u32() = {}", id.as_u32());
    crate::ensure!(id.to_usize() == v as usize, "to_usize", "from_u32({v}).to_usize() = {}", id.to_usize());
    match HpoTermId::try_from(text.as_str()) {
        Ok(back) if back == id && back.as_u32() == v => {}
        other => return fail("roundtrip/text", format!("try_from({text:?}) = {other:?}, expected id {v}")),
    }
    let bytes = id.to_be_bytes();
    crate::ensure!(bytes == v.to_be_bytes(), "to_be_bytes", "to_be_bytes of {v} = {bytes:?}");
    let back = HpoTermId::from(bytes);
    crate::ensure!(back == id, "roundtrip/bytes", "from(to_be_bytes({v})) = {back:?}");
    crate::ensure!(HpoTermId::from(v) == id, "from-u32", "From<u32>({v}) != from_u32");
    // the other integer conversions and the text comparisons agree with the id
    crate::ensure!(HpoTermId::from(u64::from(v)) == id && HpoTermId::from(v as usize) == id, "from-u64-usize", "From<u64>/From<usize>({v}) differ from from_u32");
    if let Ok(small) = u16::try_from(v) {
        crate::ensure!(HpoTermId::from(small) == id, "from-u16", "From<u16>({v}) differs from from_u32");
    }
    if v % 64 == 0 || v < 4096 {
        crate::ensure!(HpoTermId::from(text.clone()) == id, "from-string", "From<String>({text:?}) differs from the id {v}");
        crate::ensure!(id == text.as_str() && id == *text.as_str(), "eq-str", "HpoTermId({v}) == {text:?} is false");
        let other = format!("HP:{:07}", v.wrapping_add(1));
        crate::ensure!(!(id == other.as_str()), "eq-str", "HpoTermId({v}) == {other:?} is true");
        crate::ensure!(format!("{id:?}") == format!("HpoTermId({text})"), "debug", "Debug of {v} is {:?}", format!("{id:?}"));
        // the rendering is the id, whatever the placeholder asks for: a precision must not cut it (a cut rendering
        // is a different id), a width / alignment / fill must not pad it (a padded rendering does not parse)
        for (spec, got) in [("{:.9}", format!("{id:.9}")), ("{:.3}", format!("{id:.3}")), ("{:14}", format!("{id:14}")), ("{:<14}", format!("{id:<14}")), ("{:>14}", format!("{id:>14}")), ("{:*^15}", format!("{id:*^15}")), ("{:014}", format!("{id:014}")), ("{:+}", format!("{id:+}")), ("{:#}", format!("{id:#}"))] {
            crate::ensure!(got == want, "to_string/format-spec", "format!(\"{spec}\", HpoTermId({v})) = {got:?}, expected {want:?}");
        }
    }
    Ok(())
}

const TRICKY: &[char] = &[
    '\n', '\r', '\t', '\0', ' ', '\u{b}', '\u{c}', '\u{7f}', '\u{85}', '\u{a0}', '\u{2003}', '\u{2028}', '\u{200b}', '\u{feff}', '_', '.', ',', '+', '-', 'e', 'E', 'x',
    '\'', '"', ':', '/', '#',
];

fn string_strategy() -> BoxedStrategy<String> {
    let prefix = prop_oneof![
        6 => Just("HP:".to_string()),
        1 => Just("hp:".to_string()),
        1 => Just("".to_string()),
        1 => Just("H".to_string()),
        1 => Just("HP".to_string()),
        1 => Just("ab€".to_string()),
        1 => Just("é€".to_string()),
        1 => Just("😀".to_string()),
        1 => Just("a😀".to_string()),
        1 => Just("ab😀".to_string()),
        1 => Just("éé".to_string()),
        1 => Just("aé".to_string()),
        1 => Just("€".to_string()),
        // three-byte characters that text tools like to strip or normalise
        1 => proptest::sample::select(vec!["\u{feff}", "\u{200b}", "\u{2028}", "\u{3000}", "\u{fffd}", "\u{ffff}"]).prop_map(str::to_string),
        1 => "[ -~]{3}",
        1 => "\\PC{1,3}",
    ];
    let body = prop_oneof![
        5 => "[0-9]{1,7}",
        2 => "0{0,6}[0-9]{1,10}",
        1 => Just("4294967295".to_string()),
        1 => Just("4294967296".to_string()),
        1 => Just("04294967295".to_string()),
        1 => "\\+[0-9]{1,7}",
        1 => "-[0-9]{1,7}",
        1 => Just("+".to_string()),
        1 => Just("".to_string()),
        1 => "[0-9]{1,3} ",
        1 => " [0-9]{1,3}",
        1 => "[0-9]{1,3}[a-zA-Z_.]",
        1 => "[0-9]{0,3}[٠-٩][0-9]{0,3}",
        1 => "[0-9]{0,3}[０-９]",
        1 => "\\PC{0,6}",
        1 => "[0-9]{11,14}",
        // long zero padding, then something that is not a digit, then digits (a parser that trims
        // zeros first must not re-interpret the rest)
        2 => ("\\+?0{1,14}", proptest::sample::select(TRICKY.to_vec()), "[0-9]{1,9}").prop_map(|(a, c, b)| format!("{a}{c}{b}")),
        1 => "\\+?0{8,20}[0-9]{0,10}",
        1 => "\\+?0{0,14}[+-]{1,2}[0-9]{1,10}",
        // one character that number parsers of other languages skip or accept (control characters,
        // ASCII and Unicode white space, separators, exponent / radix letters) at any position of a number
        4 => ("[0-9]{0,7}", proptest::sample::select(TRICKY.to_vec()), "[0-9]{0,7}").prop_map(|(a, c, b)| format!("{a}{c}{b}")),
        1 => ("[0-9]{1,7}", proptest::sample::select(vec!["\r\n", "\n\n", "\n\r", " \n", "\t\n", "\0\0"])).prop_map(|(a, c)| format!("{a}{c}")),
        // a number followed by what follows an id in the files it is copied from: an OBO comment or modifier block,
        // a label, a separator, another id
        2 => ("\\+?[0-9]{1,10}", proptest::sample::select(vec![" ! name", " ! ", " !", "! x", "!", " {source=\"x\"}", " {}", " [x]", " # x", " // x", "\tname", " name", " HP:1", ",HP:1", ";", "|2", "/2", " !  ! "]), "[ -~]{0,4}").prop_map(|(a, c, t)| format!("{a}{c}{t}")),
    ];
    let any_chars = proptest::collection::vec(any::<char>(), 0..14).prop_map(|v| v.into_iter().collect::<String>());
    // structural edits of an acceptable text, the way mutational fuzzers make them: a slice of the text is
    // repeated, moved, removed or reversed ("HP:HP:5", "HP:5HP:5", "HP:5:5", "PH:5" ...). A parser that
    // strips, searches or splits instead of cutting at byte 3 gives itself away on these.
    let edited = (
        prop_oneof![6 => Just("HP:".to_string()), 1 => Just("hp:".to_string()), 1 => Just("HP".to_string()), 1 => Just("ab€".to_string())],
        prop_oneof![4 => "[0-9]{1,7}", 1 => "0{1,6}[0-9]{1,4}", 1 => "\\+[0-9]{1,7}", 1 => Just("4294967295".to_string())],
        proptest::collection::vec((0u8..5, any::<u16>(), any::<u16>(), 1u8..4), 1..3),
    )
        .prop_map(|(p, b, ops)| {
            let plen = p.chars().count();
            let mut t: Vec<char> = format!("{p}{b}").chars().collect();
            for (op, i, j, k) in ops {
                if t.is_empty() {
                    break;
                }
                // half of the edits work on the prefix itself
                let (i, j) = if i & 1 == 0 { (0, plen.min(t.len())) } else { (pick(i, t.len()), pick(j, t.len() + 1)) };
                let (i, j) = (i.min(j), i.max(j));
                let slice: Vec<char> = t[i..j].to_vec();
                match op {
                    0 => {
                        // repeat in place
                        for _ in 0..k {
                            t.splice(i..i, slice.iter().copied());
                        }
                    }
                    1 => {
                        // copy to the end
                        for _ in 0..k {
                            t.extend(slice.iter().copied());
                        }
                    }
                    2 => {
                        // move to the end
                        t.drain(i..j);
                        t.extend(slice.iter().copied());
                    }
                    3 => {
                        t.drain(i..j);
                    }
                    _ => t[i..j].reverse(),
                }
            }
            t.into_iter().collect::<String>()
        });
    // long text (the quantifier says: every length): an ASCII or digit filler of 0-300 bytes after the prefix, with a
    // multi-byte character at a generated byte offset (so that it straddles offsets such as 32, 64, 128, 255, 256)
    let long = (
        prop_oneof![3 => Just("HP:".to_string()), 1 => Just("ab€".to_string()), 1 => Just("".to_string())],
        prop_oneof![4 => 55usize..=70, 2 => 120usize..=135, 2 => 250usize..=262, 2 => 0usize..=300],
        prop_oneof![Just('0'), Just('7'), Just('a'), Just(' ')],
        proptest::sample::select(vec!["é", "€", "😀", "", "9", "\u{feff}"]),
        "[0-9a-z ]{0,8}",
    )
        .prop_map(|(p, n, fill, mid, tail)| format!("{p}{}{mid}{tail}", std::iter::repeat(fill).take(n).collect::<String>()));
    // the id in one of the notations other tools write (CURIE with '_', PURL, lower case, "HPO:"), behind a lead text:
    // "xHP_5", "http://purl.obolibrary.org/obo/HP_0000118", "HP:0000118HP_0000001". A parser that searches for
    // the notation instead of cutting at byte 3 accepts these; the grammar of the statement decides every one.
    let embedded = (
        proptest::sample::select(vec!["", "x", "00", "0", "+", " ", "éé", "€", "obo:", "HP:", "HP_", "HP:0000118", "HP_0000118", "http://purl.obolibrary.org/obo/", "https://hpo.jax.org/app/browse/term/", "obo/", "<", "\""]),
        proptest::sample::select(vec!["HP_", "HP:", "hp_", "hp:", "Hp_", "HP-", "HP.", "HP/", "HP ", "HPO:", "HPO_", "HP", "_", ":"]),
        prop_oneof![4 => "[0-9]{1,7}", 1 => "\\+[0-9]{1,7}", 1 => "0{1,6}[0-9]{1,4}", 1 => Just("4294967295".to_string())],
        proptest::sample::select(vec!["", "", "", ">", "\"", " ", "HP_1", "/"]),
    )
        .prop_map(|(l, n, b, t)| format!("{l}{n}{b}{t}"));
    prop_oneof![
        8 => (prefix, body).prop_map(|(p, b)| format!("{p}{b}")),
        2 => edited,
        2 => embedded,
        1 => long,
        1 => any_chars,
        1 => "\\PC{0,14}",
        1 => "[ -~]{0,14}",
    ]
    .boxed()
}

impl Property for C20 {
    fn id(&self) -> &'static str {
        "C20"
    }
    fn rule(&self) -> String {
        "Enumerated (exhaustive sub-sweep, both tiers): every id 0..10^7 plus 10^7..10^7+10^4, powers of two and the u32 borders: to_string == 'HP:'+7-digit zero padding, try_from(to_string) == id, from(to_be_bytes) == id, from_u32/as_u32/to_usize/From<u32>/From<u64>/From<usize>/From<u16> agree, From<String>, == &str, Debug and Display through placeholders with precision / width / alignment / fill / sign flags (the rendering stays 'HP:' + 7 digits) on every 64th id. Generated: strings = prefix pool (HP:, hp:, short, multi-byte prefixes whose 3rd byte lies inside a character) x body pool (digits, leading zeros, +/-, spaces, overflow 4294967295/6, non-ASCII digits, random unicode, one control / white-space / separator / exponent character at any position of a number, trailing CR/LF, a number followed by an OBO comment / modifier block / label / separator / second id), structural edits of acceptable text (a slice, half of the time the prefix, repeated / copied to the end / moved / removed / reversed: 'HP:HP:5', 'HP:5HP:5') long text of up to 300 bytes with a multi-byte character at a generated offset (across bytes 64 / 128 / 256), plus arbitrary strings of any chars; oracle = hand-written reference parser (>=4 bytes, byte 3 on a char boundary, rest matches +?[0-9]+ and <= u32::MAX); never panics; Gene/Omim/OrphaId::try_from checked with the same grammar on the whole string. evaluations = ids enumerated + strings checked. Non-trivial = string is not the canonical rendering of an id; distinct by string.".into()
    }
    fn assumptions(&self) -> Vec<String> {
        vec!["'parsable to u32' is Rust's grammar: optional '+', ASCII digits, value <= u32::MAX".into()]
    }
    fn cases(&self, tier: Tier) -> u64 {
        match tier {
            Tier::Quick => 2_000_000,
            Tier::Thorough => 30_000_000,
        }
    }
    fn required_labels(&self, _tier: Tier) -> Vec<&'static str> {
        vec!["byte3-inside-char", "non-ascii", "parses", "short", "rejected-body", "digits-with-control-or-space", "longer-than-64-bytes", "multi-byte-char-across-byte-64/128/256"]
    }
    fn run_generated(&self, _tier: Tier, seed: u64, n: u64, stats: &mut Stats) -> Option<(Value, Failure)> {
        run_typed(string_strategy(), seed, n, stats, check_string)
    }
    fn replay(&self, case: &Value, stats: &mut Stats) -> Result<CheckResult, String> {
        if let Some(v) = case.get("id").and_then(|v| v.as_u64()) {
            stats.cases += 1;
            return Ok(guarded(|| check_id(v as u32)).unwrap_or_else(|p| fail("id-sweep/panic", p)));
        }
        replay_typed::<String, _>(case, stats, check_string)
    }
    fn extra(&self, _tier: Tier, _seed: u64, stats: &mut Stats) -> Vec<(Value, Failure)> {
        // exhaustive id sweep, split over 16 threads
        let mut extras: Vec<u32> = (10_000_000u32..10_010_000).collect();
        for s in 0..32 {
            let p = 1u32 << s;
            extras.extend([p.wrapping_sub(1), p, p.wrapping_add(1)]);
        }
        extras.extend([u32::MAX, u32::MAX - 1, 99_999_999, 100_000_000, 999_999_999, 1_000_000_000]);
        let chunks = 16u32;
        let per = 10_000_000 / chunks;
        let mut out: Vec<(Value, Failure)> = Vec::new();
        let fails: Vec<Option<(u32, Failure)>> = std::thread::scope(|sc| {
            let hs: Vec<_> = (0..chunks)
                .map(|c| {
                    sc.spawn(move || {
                        for v in c * per..(c + 1) * per {
                            if let Err(f) = guarded(|| check_id(v)).unwrap_or_else(|p| fail("id-sweep/panic", p)) {
                                return Some((v, f));
                            }
                        }
                        None
                    })
                })
                .collect();
            hs.into_iter().map(|h| h.join().unwrap_or(None)).collect()
        });
        for (v, f) in fails.into_iter().flatten() {
            out.push((json!({"id": v}), f));
        }
        for v in &extras {
            if let Err(f) = guarded(|| check_id(*v)).unwrap_or_else(|p| fail("id-sweep/panic", p)) {
                out.push((json!({"id": v}), f));
            }
        }
        stats.eval(10_000_000 + extras.len() as u64);
        stats.count("ids_enumerated", 10_000_000 + extras.len() as u64);
        out
    }
    fn coverage_extra(&self, _tier: Tier, _stats: &Stats) -> std::collections::BTreeMap<String, Value> {
        let mut m = std::collections::BTreeMap::new();
        m.insert("exhaustive_id_space".into(), json!("all ids 0..10^7 enumerated for the id <-> text/bytes bijection (the string domain is sampled, so `exhaustive` is not set for the property as a whole)"));
        m
    }
}
