//! C16 — the ontology is a function of the facts, not of the order they are supplied.

use super::common::*;
use crate::build::*;
use crate::gen::{self, GenCfg, NameMode};
use crate::model::*;
use crate::observe::*;
use crate::runner::*;
use proptest::collection::vec;
use proptest::prelude::*;
use serde::{Deserialize, Serialize};
use serde_json::{json, Value};

pub struct C16;

#[derive(Clone, Debug, Serialize, Deserialize, PartialEq)]
pub struct Case {
    pub base: OntCase,
    /// sort keys defining the second supply order
    pub keys: Vec<u16>,
    /// a second path through which the same facts are pushed (cross-path comparison)
    pub other_path: Option<PathSel>,
}

pub fn check(c: &Case, stats: &mut Stats) -> CheckResult {
    let f1 = &c.base.facts;
    let f2 = gen::permuted(f1, &c.keys);
    let pn = c.base.path.name();
    let build = |f: &Facts, p: PathSel| -> Result<Snapshot, Failure> {
        let o = build_path(f, p, &c.base.noise).map_err(|e| Failure { signature: format!("construct/{}", p.name()), message: e })?;
        guarded(|| observe(&o)).map_err(|p| Failure { signature: "observe-panic".into(), message: p })
    };
    let s1 = build(f1, c.base.path)?;
    let s2 = build(&f2, c.base.path)?;
    stats.eval(2);
    if s1 != s2 {
        let d = diff_snapshots(&s1, &s2);
        let kind: String = d.first().map(|x| x.split(' ').next().unwrap_or("").to_string()).unwrap_or_default();
        return fail(
            format!("order-dependent/{pn}/{kind}"),
            format!("two supply orders of the same facts give different ontologies via {pn}: {}", d.iter().take(3).cloned().collect::<Vec<_>>().join(" | ")),
        );
    }
    if !s1.problems.is_empty() {
        return fail(format!("read-api/{pn}"), format!("{:?}", s1.problems));
    }
    // across paths, for facts both can express
    if let Some(p2) = c.other_path {
        let e1 = expected_facts(f1, c.base.path);
        let e2 = expected_facts(f1, p2);
        if e1.canonical_hash() == e2.canonical_hash() && p2.defaults() == c.base.path.defaults() {
            let s3 = build(&f2, p2)?;
            stats.eval(1);
            if s1 != s3 {
                let d = diff_snapshots(&s1, &s3);
                let kind: String = d.first().map(|x| x.split(' ').next().unwrap_or("").to_string()).unwrap_or_default();
                return fail(
                    format!("path-dependent/{pn}-vs-{}/{kind}", p2.name()),
                    format!("same facts via {pn} and via {}: {}", p2.name(), d.iter().take(3).cloned().collect::<Vec<_>>().join(" | ")),
                );
            }
            stats.label("cross-path-comparison");
        }
    }
    stats.count(&format!("path:{pn}"), 1);
    let m = Model::new(&expected_facts(f1, c.base.path));
    let differ = f1.terms != f2.terms || f1.edges != f2.edges || f1.ann_calls != f2.ann_calls;
    let labels = gen::labels(f1, &m);
    for l in &labels {
        if ["diamond", "link-on-term-and-ancestor", "multi-parent"].contains(l) {
            stats.label(l);
        }
    }
    if m.depth() > 33 {
        stats.label("depth>33");
    }
    if differ && labels.contains(&"diamond") && labels.contains(&"link-on-term-and-ancestor") {
        stats.label("nontrivial");
        let mut h = Fnv::new();
        h.u64(f1.canonical_hash());
        h.u64(hash_json(&c.keys));
        h.bytes(pn.as_bytes());
        stats.nontrivial(h.finish());
        stats.sample(|| json!({"path": pn, "term_order_1": f1.terms.iter().map(|t| t.id).collect::<Vec<_>>(), "term_order_2": f2.terms.iter().map(|t| t.id).collect::<Vec<_>>(),
            "edge_order_1": f1.edges, "edge_order_2": f2.edges, "calls_1": f1.ann_calls.len()}));
    }
    Ok(())
}

fn strategy(tier: Tier) -> BoxedStrategy<Case> {
    let max = if tier == Tier::Quick { 18 } else { 60 };
    let free = GenCfg::small().terms(1, max).recs(5);
    let std_cfg = GenCfg::small().terms(2, max).recs(5).standard().with_flags(true).names(NameMode::Capped);
    let any_path = || {
        prop_oneof![
            Just(PathSel::BuilderDefaults),
            Just(PathSel::Bin(1)),
            Just(PathSel::Bin(2)),
            Just(PathSel::Bin(3)),
            Just(PathSel::RoundTrip),
            Just(PathSel::Jax),
            Just(PathSel::JaxT),
        ]
    };
    let free_s = (gen::facts(free), vec(any::<u16>(), 48)).prop_map(|(facts, keys)| Case {
        base: OntCase { facts, path: PathSel::Builder, noise: JaxNoise::default() },
        keys,
        other_path: None,
    });
    let std_s = (gen::facts(std_cfg), any_path(), proptest::option::of(any_path()), noise_strategy(), vec(any::<u16>(), 48), proptest::bool::weighted(0.4)).prop_map(
        |(mut facts, path, other_path, noise, keys, plain)| {
            if plain {
                // facts every path can express: no flags, no ORPHA, no empty records
                for t in facts.terms.iter_mut() {
                    t.obsolete = false;
                    t.replacement = None;
                }
                facts.recs[ORPHA].clear();
                for k in 0..3 {
                    facts.recs[k].retain(|r| !r.terms.is_empty());
                }
                let f2 = facts.clone();
                facts.ann_calls.retain(|c| f2.recs[c.kind as usize].iter().any(|r| r.id == c.rec));
                facts.version = (0, 0, 0);
            }
            let mut noise = noise;
            maybe_headerless(&mut facts, path, &mut noise, keys[0] as u8);
            // a header-less text case is not compared with another path that has a version field
            let other_path = if noise.no_header { None } else { other_path };
            Case { base: OntCase { facts, path, noise }, keys, other_path }
        },
    );
    // deep graphs (more than 32 levels): order dependence of depth-limited or memoised walks
    let deep = GenCfg::small().terms(36, 52).recs(3).shapes(&[1, 1, 4, 0]);
    let deep_s = (gen::facts(deep), vec(any::<u16>(), 48)).prop_map(|(facts, keys)| Case {
        base: OntCase { facts, path: PathSel::Builder, noise: JaxNoise::default() },
        keys,
        other_path: None,
    });
    let deep_std = GenCfg::small().terms(36, 52).recs(3).standard().with_flags(true).names(NameMode::Capped).shapes(&[1, 1, 4, 0]);
    let deep_std_s = (gen::facts(deep_std), prop_oneof![Just(PathSel::Bin(3)), Just(PathSel::Jax), Just(PathSel::BuilderDefaults)], vec(any::<u16>(), 48)).prop_map(|(facts, path, keys)| Case {
        base: OntCase { facts, path, noise: JaxNoise::default() },
        keys,
        other_path: None,
    });
    prop_oneof![9 => free_s, 21 => std_s, 1 => deep_s, 1 => deep_std_s].boxed()
}

impl Property for C16 {
    fn id(&self) -> &'static str {
        "C16"
    }
    fn rule(&self) -> String {
        "Generated: fact sets (graphs with diamonds, records linked to a term and to its ancestors, repeated facts) and a second, independently generated supply order of the same facts: order of new_term / add_parent / add_* / annotate_* calls (Builder), of term records, parent records, gene/disease records and of the terms inside a record (binary v1-v3), of stanzas, is_a lines and rows (JAX files). Metamorphic oracle: the complete sorted read-API snapshots of both ontologies are equal (only iteration order may differ); for facts that two construction paths can both express the snapshots are also equal across paths. evaluations = ontologies built. Non-trivial = the two orders differ, the graph has a diamond and a record is linked to a term and one of its ancestors; distinct = hash(facts, second order, path).".into()
    }
    fn assumptions(&self) -> Vec<String> {
        vec!["one name per id, one replacement per term (duplicate ids with different data are order dependent by design: first wins)".into()]
    }
    fn cases(&self, tier: Tier) -> u64 {
        match tier {
            Tier::Quick => 60_000,
            Tier::Thorough => 700_000,
        }
    }
    fn required_labels(&self, _tier: Tier) -> Vec<&'static str> {
        vec!["nontrivial", "cross-path-comparison", "diamond", "link-on-term-and-ancestor", "depth>33", "bulk>65535-terms", "depth>255", "direct-parents>255"]
    }
    fn run_generated(&self, tier: Tier, seed: u64, n: u64, stats: &mut Stats) -> Option<(Value, Failure)> {
        run_typed(strategy(tier), seed, n, stats, check)
    }
    fn replay(&self, case: &Value, stats: &mut Stats) -> Result<CheckResult, String> {
        for (key, deep) in [("bulk", false), ("deep", true), ("fanin", false)] {
            if let Some(b) = case.get(key) {
                // large facts (more than 65 535 terms / chains deeper than 255 links) in two supply orders
                let v: (u32, u32, u32, PathSel, u16) = serde_json::from_value(b.clone()).map_err(|e| e.to_string())?;
                stats.cases += 1;
                let facts = if key == "fanin" {
                    super::common::fanin_facts(v.0, v.1, v.2)
                } else if deep {
                    deep_facts(v.0, v.1, v.2)
                } else {
                    bulk_facts(v.0, v.1, v.2)
                };
                let keys: Vec<u16> = (0..64u32).map(|i| ((i * 40_503 + u32::from(v.4) * 977) % 65_521) as u16).collect();
                let c = Case { base: OntCase { facts, path: v.3, noise: Default::default() }, keys, other_path: None };
                let r = check(&c, stats);
                if r.is_ok() {
                    stats.label(if key == "fanin" { "direct-parents>255" } else if deep { "depth>255" } else { "bulk>65535-terms" });
                }
                return Ok(r);
            }
        }
        replay_typed::<Case, _>(case, stats, check)
    }
    fn isolated_plans(&self, tier: Tier, seed: u64) -> Vec<Value> {
        let k = (seed % 60_000) as u16;
        let mut out = vec![json!({"bulk": (65_700u32, 7919u32, 20u32, PathSel::Builder, k)}), json!({"deep": (300u32, 104_729u32, 10u32, PathSel::Bin(3), k)}), json!({"fanin": (300u32, 7919u32, 10u32, PathSel::Bin(3), k)})];
        if tier == Tier::Thorough {
            out.push(json!({"bulk": (66_200u32, 104_729u32, 50u32, PathSel::Bin(3), k)}));
            out.push(json!({"deep": (1200u32, 7919u32, 20u32, PathSel::Builder, k)}));
        }
        out
    }
}
