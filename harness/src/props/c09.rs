//! C09 — JAX text loaders build exactly the ontology the three files describe.

use super::common::*;
use crate::build::*;
use crate::gen::{self, pick, GenCfg, NameMode};
use crate::model::*;
use crate::observe::*;
use crate::runner::*;
use proptest::collection::vec;
use proptest::prelude::*;
use serde_json::{json, Value};

pub struct C09;

pub fn check(c: &OntCase, stats: &mut Stats) -> CheckResult {
    let transitive = matches!(c.path, PathSel::JaxT);
    let pn = c.path.name();
    let expected = expected_facts(&c.facts, c.path);
    let model = Model::new(&expected);
    let ont = match build_path(&c.facts, c.path, &c.noise) {
        Ok(o) => o,
        Err(e) => return fail(format!("loader-fails/{pn}"), format!("loading well-formed JAX files failed: {e}")),
    };
    stats.eval(1);
    let snap = guarded(|| observe(&ont)).map_err(|p| Failure { signature: "observe-panic".into(), message: p })?;
    let e = Expect { model: &model, defaults: true, term_name: &ident, rec_name: &ident_rec };
    let diffs = diff_model(&snap, &e, &[Group::Basic, Group::Closure, Group::Annot, Group::Ic, Group::Cats, Group::Problems]);
    if let Some(d) = diffs.first() {
        let kind: String = d.what.split(' ').next().unwrap_or("").chars().take(24).collect();
        return fail(
            format!("files-vs-ontology/{pn}/{kind}"),
            format!("{} difference(s) between the loaded ontology and the facts in the files: {}", diffs.len(), diffs.iter().take(5).map(|d| d.what.clone()).collect::<Vec<_>>().join(" | ")),
        );
    }
    // differential: the same facts through the binary format
    let via_bin = match via_binary(&expected, 3) {
        Ok(o) => o,
        Err(e) => return fail("construct/bin-v3", e),
    };
    let sb = observe(&via_bin);
    // (the binary format encodes "no replacement" as id 0: a replacement HP:0000000 exists in the text form only)
    let mut snap_b = snap.clone();
    for t in snap_b.terms.values_mut() {
        if t.replacement == Some(0) {
            t.replacement = None;
            t.replaced_by = None;
        }
    }
    if sb != snap_b {
        let d = diff_snapshots(&sb, &snap_b);
        return fail(format!("differs-from-binary/{pn}"), format!("text loader vs binary loader on the same facts: {}", d.iter().take(3).cloned().collect::<Vec<_>>().join(" | ")));
    }
    // differential: the Builder API (cannot express flags)
    let flags = expected.terms.iter().any(|t| t.obsolete || t.replacement.is_some());
    if !flags {
        let vb = match via_builder(&expected, Finish::Defaults) {
            Ok(o) => o,
            Err(e) => return fail("construct/builder-defaults", e),
        };
        let s2 = observe(&vb);
        if s2 != snap {
            let d = diff_snapshots(&s2, &snap);
            return fail(format!("differs-from-builder/{pn}"), format!("text loader vs Builder API on the same facts: {}", d.iter().take(3).cloned().collect::<Vec<_>>().join(" | ")));
        }
        stats.label("compared-with-builder");
    }
    stats.count(&format!("loader:{pn}"), 1);
    let n = &c.noise;
    let has_not = !n.not_rows.is_empty();
    if has_not {
        stats.label("NOT-rows");
    }
    if n.not_rows.iter().any(|(k, id, _, _)| !model.direct[*k as usize].contains_key(id)) {
        stats.label("disease-only-negated");
    }
    if n.not_rows.iter().any(|(k, id, _, t)| model.direct[*k as usize].get(id).is_some_and(|r| r.1.contains(t))) {
        stats.label("NOT-row-for-an-existing-link");
    }
    if expected.ann_calls.iter().enumerate().any(|(pos, a)| a.term.is_some() && a.kind as usize != GENE && !crate::build::kept_qualifier(n, pos).is_empty()) {
        stats.label("kept-row-with-a-qualifier-other-than-NOT");
    }
    if !n.decipher_rows.is_empty() {
        stats.label("DECIPHER-rows");
    }
    if n.typedefs > 0 {
        stats.label("typedef-stanzas");
    }
    if n.extra_cols {
        stats.label("extra-columns");
    }
    if n.isa_modifier {
        stats.label("is_a-with-trailing-modifier");
    }
    if n.blank_rows {
        stats.label("blank-rows-in-hpoa");
    }
    if n.no_header {
        stats.label("obo-without-header");
    }
    if n.long_lines {
        stats.label("lines-longer-than-8KiB");
    }
    if n.tag_order != 0 {
        stats.label("id-tag-not-first-in-stanza");
    }
    if n.header_order % 3 != 0 && !n.no_header {
        stats.label("data-version-not-on-the-second-header-line");
    }
    if n.split_stanzas && expected.terms.iter().enumerate().any(|(pos, t)| pos % 2 == 0 && expected.edges.iter().filter(|(c, _)| *c == t.id).count() >= 2) {
        stats.label("is_a-lines-of-a-term-in-two-stanzas");
    }
    if expected.terms.iter().any(|t| t.replacement == Some(0)) {
        stats.label("replacement-id-0");
    }
    match n.eof % 3 {
        1 => stats.label("files-without-final-newline"),
        2 => stats.label("files-with-blank-line-at-end"),
        _ => {}
    }
    if n.hpoa_head % 4 >= 2 && (!model.direct[OMIM].is_empty() || !model.direct[ORPHA].is_empty()) {
        stats.label("hpoa-without-column-line");
        if n.hpoa_head % 4 == 3 {
            stats.label("hpoa-starts-with-a-row");
        }
    }
    let colon = expected.terms.iter().any(|t| t.name.contains(": "));
    if colon {
        stats.label("name-with-colon-space");
    }
    if expected.terms.iter().any(|t| !t.name.is_ascii()) {
        stats.label("non-ascii-name");
    }
    let obsolete = expected.terms.iter().any(|t| t.obsolete);
    if transitive {
        stats.label("transitive-loader");
    }
    if has_not && !model.direct[OMIM].is_empty() && !model.direct[ORPHA].is_empty() && colon && obsolete {
        stats.label("nontrivial");
        let mut h = Fnv::new();
        h.u64(expected.canonical_hash());
        h.u64(hash_json(&c.noise));
        h.bytes(pn.as_bytes());
        stats.nontrivial(h.finish());
        stats.sample(|| {
            let files = render_jax(&expected, &c.noise);
            json!({"loader": pn, "hp.obo": files.obo.chars().take(700).collect::<String>(), "phenotype.hpoa": files.hpoa.lines().skip(3).take(6).collect::<Vec<_>>(),
                   "genes": files.genes_to_phenotype.lines().take(3).collect::<Vec<_>>()})
        });
    }
    Ok(())
}

fn strategy(tier: Tier) -> BoxedStrategy<OntCase> {
    let max = if tier == Tier::Quick { 14 } else { 50 };
    let cfg = GenCfg::small().terms(2, max).recs(6).standard().with_flags(true).names(NameMode::Capped).no_empty_recs();
    (
        gen::facts(cfg),
        noise_strategy(),
        any::<bool>(),
        vec((1u8..3, any::<u16>(), any::<bool>(), any::<u16>()), 0..5),
        vec((any::<u16>(), any::<u16>()), 0..3),
        proptest::bool::weighted(0.3),
    )
        .prop_map(|(mut facts, mut noise, transitive, nots, deci, strip_flags)| {
            if strip_flags {
                // facts the Builder API can express as well (third differential)
                for t in facts.terms.iter_mut() {
                    t.obsolete = false;
                    t.replacement = None;
                }
            }
            // the text format can name HP:0000000 as replacement (the binary format cannot: 0 means none)
            if noise.comments == 2 && !facts.terms.is_empty() {
                let i = noise.typedefs as usize % facts.terms.len();
                facts.terms[i].replacement = Some(0);
            }
            let term_ids: Vec<u32> = facts.terms.iter().map(|t| t.id).collect();
            for (k, p, existing, tp) in nots {
                let recs = &facts.recs[k as usize];
                let term = term_ids[pick(tp, term_ids.len())];
                if existing && !recs.is_empty() {
                    let r = &recs[pick(p, recs.len())];
                    // negated row for a disease that also has positive rows; sometimes for a term it is linked to
                    let t = if p % 2 == 0 && !r.terms.is_empty() { r.terms[pick(tp, r.terms.len())] } else { term };
                    noise.not_rows.push((k, r.id, text_name(&r.name), t));
                } else {
                    // a disease that only occurs negated: must not exist afterwards
                    let mut id = 900_000 + u32::from(p);
                    while recs.iter().any(|r| r.id == id) {
                        id += 1;
                    }
                    noise.not_rows.push((k, id, format!("only negated {p}"), term));
                }
            }
            for (a, b) in deci {
                noise.decipher_rows.push((u32::from(a), term_ids[pick(b, term_ids.len())]));
            }
            let path = if transitive { PathSel::JaxT } else { PathSel::Jax };
            let sel = (noise.not_rows.len() as u8).wrapping_mul(5).wrapping_add(noise.comments);
            maybe_headerless(&mut facts, path, &mut noise, sel);
            OntCase { facts, path, noise }
        })
        .boxed()
}

impl Property for C09 {
    fn id(&self) -> &'static str {
        "C09"
    }
    fn rule(&self) -> String {
        "Generated: fact sets (terms incl. HP:0000001/HP:0000118, obsolete and replaced terms incl. dangling replaced_by, names with ': ' and non-ASCII text, OMIM/ORPHA/gene rows) rendered by an own renderer into hp.obo, phenotype.hpoa and genes_to_phenotype.txt / phenotype_to_genes.txt in generated stanza and row order with noise that must be ignored: '#'/column-name header variants, an hp.obo without header block (release version 0000-00-00), extra tag lines before and after name (def, synonym, xref, alt_id, comment containing 'is_a: ', created_by with nested ': '), [Typedef] stanzas with is_a lines, explicit 'is_obsolete: false', is_a lines with a trailing {modifier}, blank rows in phenotype.hpoa, NOT rows (for existing links, for other terms, for diseases that only occur negated), kept rows whose qualifier is a text other than exactly NOT ('not', 'Not', 'NOT ', ' NOT', 'NOTE', ...), DECIPHER rows, '#' comment rows, extra trailing columns. Both loaders. Oracle: complete read-API snapshot = reference model of the facts (version string, one term per stanza with name/flags/replacement/parents, links, inheritance, IC, categories); identical to the snapshot of from_bytes(own v3 encoding of the facts) and, when the facts carry no flags, of the Builder API with defaults. evaluations = loads. Non-trivial = >=1 NOT row, >=1 OMIM and >=1 ORPHA row, a name containing ': ', >=1 obsolete term; distinct = hash(facts, noise, loader).".into()
    }
    fn assumptions(&self) -> Vec<String> {
        vec![
            "obo stanzas are separated by exactly one blank line and every line of a [Term] stanza has the form 'tag: value' (the parser expects that; real hp.obo satisfies it)".into(),
            "gene files start with a header line and contain no blank lines; names contain no tabs or line breaks; is_a targets exist".into(),
            "the formats cannot express records without terms".into(),
        ]
    }
    fn cases(&self, tier: Tier) -> u64 {
        match tier {
            Tier::Quick => 40_000,
            Tier::Thorough => 500_000,
        }
    }
    fn required_labels(&self, _tier: Tier) -> Vec<&'static str> {
        vec!["nontrivial", "NOT-rows", "kept-row-with-a-qualifier-other-than-NOT", "disease-only-negated", "NOT-row-for-an-existing-link", "DECIPHER-rows", "typedef-stanzas", "extra-columns", "name-with-colon-space", "non-ascii-name", "transitive-loader", "compared-with-builder", "obo-without-header", "hpoa-without-column-line", "hpoa-starts-with-a-row", "files-without-final-newline", "files-with-blank-line-at-end", "lines-longer-than-8KiB", "replacement-id-0"]
    }
    fn run_generated(&self, tier: Tier, seed: u64, n: u64, stats: &mut Stats) -> Option<(Value, Failure)> {
        run_typed(strategy(tier), seed, n, stats, check)
    }
    fn replay(&self, case: &Value, stats: &mut Stats) -> Result<CheckResult, String> {
        replay_typed::<OntCase, _>(case, stats, check)
    }
}
