//! C18 — ontology comparison reports exactly the differences.

use super::common::{build_path, expected_facts, PathSel};
use crate::build::*;
use crate::gen::{self, name_strategy, pick, GenCfg, NameMode};
use crate::model::*;
use crate::observe::guarded;
use crate::runner::*;
use crate::ensure;
use hpo::annotations::{AnnotationId, Disease};
use hpo::comparison::{AnnotationDelta, HpoTermDelta};
use hpo::Ontology;
use proptest::collection::vec;
use proptest::prelude::*;
use serde::{Deserialize, Serialize};
use serde_json::{json, Value};
use std::collections::{BTreeMap, BTreeSet};

pub struct C18;

#[derive(Clone, Debug, Serialize, Deserialize, PartialEq)]
pub struct Case {
    pub old: Facts,
    pub new: Facts,
    /// the kinds of the edits that lead from old to new (for labelling only)
    pub edits: Vec<String>,
    /// how both ontologies are constructed (default: own v3 bytes)
    #[serde(default = "super::c13::default_path")]
    pub path: PathSel,
}

#[derive(Debug, PartialEq, Clone, Default)]
struct TermDelta {
    name: Option<(String, String)>,
    added_parents: BTreeSet<u32>,
    removed_parents: BTreeSet<u32>,
    obsolete: Option<(bool, bool)>,
    replacement: Option<(Option<u32>, Option<u32>)>,
}

#[derive(Debug, PartialEq, Clone, Default)]
struct RecDelta {
    name: Option<(String, String)>,
    added: BTreeSet<u32>,
    removed: BTreeSet<u32>,
    n_terms: (usize, usize),
}

#[derive(Debug, PartialEq, Default)]
struct Diff {
    added_terms: BTreeSet<u32>,
    removed_terms: BTreeSet<u32>,
    changed_terms: BTreeMap<u32, TermDelta>,
    added_recs: [BTreeSet<u32>; 3],
    removed_recs: [BTreeSet<u32>; 3],
    changed_recs: [BTreeMap<String, RecDelta>; 3],
}

fn rec_label(k: usize, id: u32) -> String {
    match k {
        GENE => format!("NCBI-GeneID:{id}"),
        OMIM => format!("OMIM:{id}"),
        _ => format!("ORPHA:{id}"),
    }
}

/// the difference computed on the facts
fn model_diff(a: &Model, b: &Model) -> Diff {
    let mut d = Diff::default();
    for id in &b.ids {
        if !a.has(*id) {
            d.added_terms.insert(*id);
        }
    }
    for id in &a.ids {
        if !b.has(*id) {
            d.removed_terms.insert(*id);
            continue;
        }
        let (i, j) = (a.i(*id), b.i(*id));
        let mut t = TermDelta::default();
        if a.names[i] != b.names[j] {
            t.name = Some((a.names[i].clone(), b.names[j].clone()));
        }
        t.added_parents = b.parents[j].difference(&a.parents[i]).copied().collect();
        t.removed_parents = a.parents[i].difference(&b.parents[j]).copied().collect();
        if a.obsolete[i] != b.obsolete[j] {
            t.obsolete = Some((a.obsolete[i], b.obsolete[j]));
        }
        if a.replacement[i] != b.replacement[j] {
            t.replacement = Some((a.replacement[i], b.replacement[j]));
        }
        if t != TermDelta::default() {
            d.changed_terms.insert(*id, t);
        }
    }
    for k in 0..3 {
        for id in b.direct[k].keys() {
            if !a.direct[k].contains_key(id) {
                d.added_recs[k].insert(*id);
            }
        }
        for (id, (na, ta)) in &a.direct[k] {
            let Some((nb, tb)) = b.direct[k].get(id) else {
                d.removed_recs[k].insert(*id);
                continue;
            };
            let r = RecDelta {
                name: if na != nb { Some((na.clone(), nb.clone())) } else { None },
                added: tb.difference(ta).copied().collect(),
                removed: ta.difference(tb).copied().collect(),
                n_terms: (ta.len(), tb.len()),
            };
            if r.name.is_some() || !r.added.is_empty() || !r.removed.is_empty() {
                d.changed_recs[k].insert(rec_label(k, *id), r);
            }
        }
    }
    d
}

fn term_delta(t: &HpoTermDelta) -> (u32, TermDelta) {
    (
        t.id().as_u32(),
        TermDelta {
            name: t.changed_name().cloned(),
            added_parents: t.added_parents().map(|v| v.iter().map(|x| x.as_u32()).collect()).unwrap_or_default(),
            removed_parents: t.removed_parents().map(|v| v.iter().map(|x| x.as_u32()).collect()).unwrap_or_default(),
            obsolete: t.changed_obsolete(),
            replacement: t.changed_replacement().map(|(a, b)| (a.map(|x| x.as_u32()), b.map(|x| x.as_u32()))),
        },
    )
}

fn rec_delta(r: &AnnotationDelta) -> (String, RecDelta) {
    (
        r.id().to_string(),
        RecDelta {
            name: r.changed_name().cloned(),
            added: r.added_terms().map(|v| v.iter().map(|x| x.as_u32()).collect()).unwrap_or_default(),
            removed: r.removed_terms().map(|v| v.iter().map(|x| x.as_u32()).collect()).unwrap_or_default(),
            n_terms: r.n_terms(),
        },
    )
}

fn uniq<T: Ord + Clone + std::fmt::Debug>(v: Vec<T>, what: &str) -> Result<BTreeSet<T>, Failure> {
    let s: BTreeSet<T> = v.iter().cloned().collect();
    if s.len() != v.len() {
        return fail(format!("compare/duplicates/{what}"), format!("{what} lists an entry twice: {v:?}"));
    }
    Ok(s)
}

/// what `a.compare(b)` reports
fn observed_diff(a: &Ontology, b: &Ontology) -> Result<Diff, Failure> {
    let r = guarded(|| -> Result<Diff, Failure> {
        let c = a.compare(b);
        let mut d = Diff {
            added_terms: uniq(c.added_hpo_terms().iter().map(|t| t.id().as_u32()).collect(), "added_hpo_terms")?,
            removed_terms: uniq(c.removed_hpo_terms().iter().map(|t| t.id().as_u32()).collect(), "removed_hpo_terms")?,
            ..Default::default()
        };
        for t in c.changed_hpo_terms() {
            let (id, td) = term_delta(&t);
            if d.changed_terms.insert(id, td).is_some() {
                return fail("compare/duplicates/changed_hpo_terms", format!("term {id} reported twice"));
            }
        }
        d.added_recs[GENE] = uniq(c.added_genes().iter().map(|g| g.id().as_u32()).collect(), "added_genes")?;
        d.removed_recs[GENE] = uniq(c.removed_genes().iter().map(|g| g.id().as_u32()).collect(), "removed_genes")?;
        d.added_recs[OMIM] = uniq(c.added_omim_diseases().iter().map(|g| g.id().as_u32()).collect(), "added_omim_diseases")?;
        d.removed_recs[OMIM] = uniq(c.removed_omim_diseases().iter().map(|g| g.id().as_u32()).collect(), "removed_omim_diseases")?;
        d.added_recs[ORPHA] = uniq(c.added_orpha_diseases().iter().map(|g| g.id().as_u32()).collect(), "added_orpha_diseases")?;
        d.removed_recs[ORPHA] = uniq(c.removed_orpha_diseases().iter().map(|g| g.id().as_u32()).collect(), "removed_orpha_diseases")?;
        for (k, list) in [(GENE, c.changed_genes()), (OMIM, c.changed_omim_diseases()), (ORPHA, c.changed_orpha_diseases())] {
            for r in &list {
                let (id, rd) = rec_delta(r);
                if d.changed_recs[k].insert(id.clone(), rd).is_some() {
                    return fail("compare/duplicates/changed-records", format!("record {id} reported twice"));
                }
            }
        }
        Ok(d)
    });
    match r {
        Ok(r) => r,
        Err(p) => fail("compare/panic", p),
    }
}

fn explain(want: &Diff, got: &Diff) -> (String, String) {
    if want.added_terms != got.added_terms || want.removed_terms != got.removed_terms {
        return ("added-removed-terms".into(), format!("added {:?} (expected {:?}), removed {:?} (expected {:?})", got.added_terms, want.added_terms, got.removed_terms, want.removed_terms));
    }
    if want.changed_terms != got.changed_terms {
        let keys: BTreeSet<u32> = want.changed_terms.keys().chain(got.changed_terms.keys()).copied().collect();
        for k in keys {
            let (w, g) = (want.changed_terms.get(&k), got.changed_terms.get(&k));
            if w != g {
                let field = match (w, g) {
                    (Some(w), Some(g)) if w.replacement != g.replacement => "replacement",
                    (Some(w), Some(g)) if w.name != g.name => "name",
                    (Some(w), Some(g)) if w.obsolete != g.obsolete => "obsolete",
                    (Some(_), Some(_)) => "parents",
                    (Some(w), None) if w.replacement.is_some() && w.name.is_none() && w.obsolete.is_none() && w.added_parents.is_empty() && w.removed_parents.is_empty() => "replacement-change-missed",
                    (Some(_), None) => "change-missed",
                    _ => "spurious-change",
                };
                return (format!("changed-terms/{field}"), format!("term {k}: reported {g:?}, expected {w:?}"));
            }
        }
    }
    for k in 0..3 {
        if want.added_recs[k] != got.added_recs[k] || want.removed_recs[k] != got.removed_recs[k] {
            return (format!("added-removed-{}", KIND_NAMES[k]), format!("added {:?} (expected {:?}), removed {:?} (expected {:?})", got.added_recs[k], want.added_recs[k], got.removed_recs[k], want.removed_recs[k]));
        }
        if want.changed_recs[k] != got.changed_recs[k] {
            return (format!("changed-{}", KIND_NAMES[k]), format!("reported {:?}, expected {:?}", got.changed_recs[k], want.changed_recs[k]));
        }
    }
    ("unknown".into(), String::new())
}

pub fn check(c: &Case, stats: &mut Stats) -> CheckResult {
    let sig = format!("construct/{}", c.path.name());
    let o1 = build_path(&c.old, c.path, &JaxNoise::default()).map_err(|e| Failure { signature: sig.clone(), message: e })?;
    let o2 = build_path(&c.new, c.path, &JaxNoise::default()).map_err(|e| Failure { signature: sig.clone(), message: e })?;
    let (m1, m2) = (Model::new(&expected_facts(&c.old, c.path)), Model::new(&expected_facts(&c.new, c.path)));
    stats.count(&format!("path:{}", c.path.name()), 1);
    stats.eval(4);
    let want = model_diff(&m1, &m2);
    let got = observed_diff(&o1, &o2)?;
    if want != got {
        let (sig, msg) = explain(&want, &got);
        return fail(format!("compare/{sig}"), format!("compare(old,new) after edits {:?}: {msg}", c.edits));
    }
    // swapped arguments: added <-> removed, pairs reversed
    let want_rev = model_diff(&m2, &m1);
    let got_rev = observed_diff(&o2, &o1)?;
    if want_rev != got_rev {
        let (sig, msg) = explain(&want_rev, &got_rev);
        return fail(format!("compare-swapped/{sig}"), format!("compare(new,old) after edits {:?}: {msg}", c.edits));
    }
    // an ontology compared with itself and with its binary round trip
    let empty = Diff::default();
    let self_diff = observed_diff(&o2, &o2)?;
    ensure!(self_diff == empty, "compare/self-not-empty", "compare(o,o) reports {self_diff:?}");
    if m1.is_empty() || m2.is_empty() {
        stats.label("ontology-without-terms");
    }
    if !(m2.has(1) && m2.has(118)) {
        // (the binary loader needs both default roots; nothing to round-trip)
        if want != empty {
            stats.label("nontrivial");
            stats.nontrivial(hash_json(c));
        }
        return Ok(());
    }
    let rt = roundtrip(&o2).map_err(|e| Failure { signature: "construct/roundtrip".into(), message: e })?;
    let rt_diff = observed_diff(&o2, &rt)?;
    // the binary format stores 255 bytes of a term name / gene symbol: longer names (text path) come
    // back cut, and exactly those renames must be reported
    let mut cut = expected_facts(&c.new, c.path);
    for t in cut.terms.iter_mut() {
        t.name = char_prefix(&t.name, 255).to_string();
        // (the binary format encodes "no replacement" as id 0)
        if t.replacement == Some(0) {
            t.replacement = None;
        }
    }
    for r in cut.recs[GENE].iter_mut() {
        r.name = char_prefix(&r.name, 255).to_string();
    }
    let want_rt = model_diff(&m2, &Model::new(&cut));
    if want_rt != empty {
        stats.label("name-longer-than-255-bytes");
    }
    if m1.ids.iter().chain(m2.ids.iter()).any(|i| m1.idx.get(i).is_some_and(|k| m1.replacement[*k] == Some(0)) || m2.idx.get(i).is_some_and(|k| m2.replacement[*k] == Some(0))) {
        stats.label("replacement-id-0");
    }
    if rt_diff != want_rt {
        let (sig, msg) = explain(&want_rt, &rt_diff);
        return fail(format!("compare/roundtrip/{sig}"), format!("compare(o, roundtrip(o)): {msg}"));
    }
    if (0..3).any(|k| m1.direct[k].iter().any(|(id, t)| t.1.len() > 30 && m2.direct[k].get(id).is_some_and(|t2| t2.1.len() > 30 && t2.1 != t.1))) {
        stats.label("record-with-more-than-30-terms-on-both-sides-changed");
    }
    if m1.ids.iter().any(|id| m2.idx.get(id).is_some_and(|j| m1.parents[m1.i(*id)].len() > 30 && m2.parents[*j].len() > 30 && m1.parents[m1.i(*id)] != m2.parents[*j])) {
        stats.label("term-with-more-than-30-parents-on-both-sides-changed");
    }
    if c.old.version > c.new.version {
        stats.label("first-argument-has-the-later-release-version");
    }
    for e in &c.edits {
        stats.label(&format!("edit:{e}"));
    }
    if c.edits.len() == 1 {
        stats.label(&format!("single:{}", c.edits[0]));
    }
    if want != empty {
        stats.label("nontrivial");
        stats.nontrivial(hash_json(c));
        if want.changed_terms.values().any(|t| t.replacement.is_some()) {
            stats.sample(|| json!({"edits": c.edits, "expected_changed_terms": format!("{:?}", want.changed_terms), "added_terms": want.added_terms, "removed_terms": want.removed_terms}));
        }
    } else {
        stats.label("edits-cancel-out");
    }
    Ok(())
}

pub const EDIT_KINDS: [&str; 15] = [
    "rename-term", "add-parent", "remove-parent", "flip-obsolete", "set-replacement-existing", "set-replacement-dangling", "clear-replacement", "add-term", "remove-term",
    "add-record", "remove-record", "rename-record", "add-link", "remove-link", "change-replacement-dangling-to-dangling",
];

/// New name of a rename edit: a fresh name, the old name extended (long names then share a long
/// prefix), or the old name with the ASCII case of its letters swapped.
fn renamed(old: &str, fresh: &str, sel: u16) -> String {
    // one rename in four adds or removes an affix that goes along with a flag by convention of the masterdata
    // ("obsolete Foo" <-> "Foo"): a comparison that normalises names before comparing them misses exactly these
    if sel % 12 >= 9 {
        let (pre, suf) = [("obsolete ", ""), ("obsolete ", ""), ("", " (obsolete)")][(sel % 12 - 9) as usize];
        if !pre.is_empty() {
            return old.strip_prefix(pre).filter(|r| !r.trim().is_empty()).map_or_else(|| format!("{pre}{old}"), str::to_string);
        }
        return old.strip_suffix(suf).filter(|r| !r.trim().is_empty()).map_or_else(|| format!("{old}{suf}"), str::to_string);
    }
    match sel % 3 {
        0 => format!("{old}{fresh}"),
        1 if old.chars().any(|c| c.is_ascii_alphabetic()) => old.chars().map(|c| if c.is_ascii_lowercase() { c.to_ascii_uppercase() } else { c.to_ascii_lowercase() }).collect(),
        _ => fresh.to_string(),
    }
}

pub fn apply_edit(f: &mut Facts, kind: usize, p: [u16; 3], name: &str) -> Option<&'static str> {
    let m = Model::new(f);
    let n = f.terms.len();
    let dangling = |x: u16| -> u32 {
        // one dangling id in eight is HP:0000000 (the text format can name it; for the binary
        // paths, where 0 encodes "no replacement", the strategy maps it to none again)
        if x % 8 == 0 && !m.has(0) {
            return 0;
        }
        let mut d = 5_000_000 + u32::from(x) * 13;
        while m.has(d) {
            d += 1;
        }
        d
    };
    match kind {
        0 => {
            let t = &mut f.terms[pick(p[0], n)];
            let new_name = renamed(&t.name, name, p[2]);
            if t.name == new_name {
                return None;
            }
            t.name = new_name;
        }
        1 => {
            // new parent link that keeps the graph acyclic
            let c = m.ids[pick(p[0], m.len())];
            let cand: Vec<u32> = m.ids.iter().copied().filter(|x| *x != c && !m.desc[m.i(c)].contains(x) && !m.parents[m.i(c)].contains(x)).collect();
            if cand.is_empty() || c == 1 {
                return None;
            }
            f.edges.push((c, cand[pick(p[1], cand.len())]));
        }
        2 => {
            let es: BTreeSet<(u32, u32)> = f.edges.iter().copied().collect();
            let es: Vec<(u32, u32)> = es.into_iter().collect();
            if es.is_empty() {
                return None;
            }
            let e = es[pick(p[0], es.len())];
            f.edges.retain(|x| *x != e);
        }
        3 => {
            let t = &mut f.terms[pick(p[0], n)];
            t.obsolete = !t.obsolete;
        }
        4 => {
            let r = m.ids[pick(p[1], m.len())];
            let t = &mut f.terms[pick(p[0], n)];
            if r == 0 || t.replacement == Some(r) {
                return None;
            }
            t.replacement = Some(r);
        }
        5 => {
            let d = dangling(p[1]);
            f.terms[pick(p[0], n)].replacement = Some(d);
        }
        6 => {
            let with: Vec<usize> = (0..n).filter(|i| f.terms[*i].replacement.is_some()).collect();
            if with.is_empty() {
                return None;
            }
            f.terms[with[pick(p[0], with.len())]].replacement = None;
        }
        7 => {
            let id = dangling(p[0]);
            f.terms.push(TermFact { id, name: name.to_string(), obsolete: p[2] % 4 == 0, replacement: None });
            if p[1] % 3 != 0 {
                f.edges.push((id, m.ids[pick(p[1], m.len())]));
            }
        }
        8 => {
            let cand: Vec<u32> = m.ids.iter().copied().filter(|x| *x != 1 && *x != 118).collect();
            if cand.is_empty() {
                return None;
            }
            let id = cand[pick(p[0], cand.len())];
            f.terms.retain(|t| t.id != id);
            f.edges.retain(|(c, pp)| *c != id && *pp != id);
            for k in 0..3 {
                for r in f.recs[k].iter_mut() {
                    r.terms.retain(|t| *t != id);
                }
            }
        }
        9 => {
            let k = (p[0] % 3) as usize;
            let mut id = 40 + u32::from(p[1] % 50);
            while f.recs[k].iter().any(|r| r.id == id) {
                id += 1;
            }
            let terms = if p[2] % 3 == 0 { vec![] } else { vec![m.ids[pick(p[2], m.len())]] };
            f.recs[k].push(RecFact { id, name: name.to_string(), terms });
        }
        10 => {
            let k = (p[0] % 3) as usize;
            if f.recs[k].is_empty() {
                return None;
            }
            let i = pick(p[1], f.recs[k].len());
            f.recs[k].remove(i);
        }
        11 => {
            let k = (p[0] % 3) as usize;
            if f.recs[k].is_empty() {
                return None;
            }
            let i = pick(p[1], f.recs[k].len());
            let new_name = renamed(&f.recs[k][i].name, name, p[2]);
            if f.recs[k][i].name == new_name {
                return None;
            }
            f.recs[k][i].name = new_name;
        }
        12 => {
            let k = (p[0] % 3) as usize;
            if f.recs[k].is_empty() {
                return None;
            }
            let i = pick(p[1], f.recs[k].len());
            let t = m.ids[pick(p[2], m.len())];
            if f.recs[k][i].terms.contains(&t) {
                return None;
            }
            f.recs[k][i].terms.push(t);
        }
        13 => {
            let k = (p[0] % 3) as usize;
            let with: Vec<usize> = (0..f.recs[k].len()).filter(|i| !f.recs[k][*i].terms.is_empty()).collect();
            if with.is_empty() {
                return None;
            }
            let i = with[pick(p[1], with.len())];
            let t = f.recs[k][i].terms[pick(p[2], f.recs[k][i].terms.len())];
            f.recs[k][i].terms.retain(|x| *x != t);
        }
        _ => {
            // replacement changes from one id that is not a term to another one
            let with: Vec<usize> = (0..n).filter(|i| f.terms[*i].replacement.is_some_and(|r| !m.has(r))).collect();
            if with.is_empty() {
                return None;
            }
            let i = with[pick(p[0], with.len())];
            let d = dangling(p[1]);
            if f.terms[i].replacement == Some(d) {
                return None;
            }
            f.terms[i].replacement = Some(d);
        }
    }
    Some(EDIT_KINDS[kind])
}

/// Records with 31-70 direct terms on both sides (beyond the inline capacity of the id groups), differing at
/// the extremes of their term lists or anywhere in between.
fn wide_record_strategy() -> BoxedStrategy<Case> {
    let cfg = GenCfg::small().terms(34, 72).recs(2).standard().with_flags(true).names(NameMode::Plain);
    let paths = prop_oneof![4 => Just(PathSel::Bin(3)), 1 => Just(PathSel::Bin(1)), 1 => Just(PathSel::Jax), 1 => Just(PathSel::BuilderDefaults)];
    (gen::facts(cfg), vec(any::<u8>(), 72), vec((0usize..4, 0u8..6, any::<u16>()), 1..=3), paths)
        .prop_map(|(mut old, mask, script, path)| {
            if path == PathSel::BuilderDefaults {
                for t in old.terms.iter_mut() {
                    t.obsolete = false;
                    t.replacement = None;
                }
            }
            let mut ids: Vec<u32> = old.terms.iter().map(|t| t.id).collect();
            ids.sort_unstable();
            for k in 0..3 {
                if old.recs[k].is_empty() {
                    old.recs[k].push(RecFact { id: 77 + k as u32, name: format!("wide {k}"), terms: vec![] });
                }
                // nine terms in ten, never fewer than 31
                let mut terms: Vec<u32> = ids.iter().enumerate().filter(|(i, _)| mask[(i + 7 * k) % mask.len()] % 10 != 0).map(|(_, t)| *t).collect();
                for t in &ids {
                    if terms.len() >= 32 {
                        break;
                    }
                    if !terms.contains(t) {
                        terms.push(*t);
                    }
                }
                old.recs[k][0].terms = terms;
            }
            // and a new leaf term with 31 or more direct parents
            let mut wide = 3_000_000u32;
            while ids.contains(&wide) {
                wide += 1;
            }
            old.terms.push(TermFact { id: wide, name: "wide child".into(), obsolete: false, replacement: None });
            let mut wide_parents: Vec<u32> = ids.iter().enumerate().filter(|(i, _)| mask[(i + 31) % mask.len()] % 10 != 1).map(|(_, t)| *t).collect();
            for t in &ids {
                if wide_parents.len() >= 32 {
                    break;
                }
                if !wide_parents.contains(t) {
                    wide_parents.push(*t);
                }
            }
            old.ann_calls = old.canonical_ann_calls();
            let mut new = old.clone();
            let mut new_parents = wide_parents.clone();
            let mut edits = Vec::new();
            for (k, what, sel) in script {
                // the list that is edited: the direct terms of a record or the parents of the wide term
                let on_parents = k == 3;
                let list: &mut Vec<u32> = if on_parents { &mut new_parents } else { &mut new.recs[k][0].terms };
                list.sort_unstable();
                let missing: Vec<u32> = ids.iter().copied().filter(|t| !list.contains(t)).collect();
                let (rm, add) = if on_parents { ("remove-parent", "add-parent") } else { ("remove-link", "add-link") };
                match what {
                    0 if list.len() > 31 => {
                        list.pop();
                        edits.push(rm.to_string());
                    }
                    1 if list.len() > 31 => {
                        list.remove(0);
                        edits.push(rm.to_string());
                    }
                    2 if list.len() > 31 => {
                        list.remove(pick(sel, list.len()));
                        edits.push(rm.to_string());
                    }
                    3 if !missing.is_empty() => {
                        list.push(*missing.last().unwrap());
                        edits.push(add.to_string());
                    }
                    4 if !missing.is_empty() => {
                        list.push(missing[0]);
                        edits.push(add.to_string());
                    }
                    _ if !missing.is_empty() => {
                        list.push(missing[pick(sel, missing.len())]);
                        edits.push(add.to_string());
                    }
                    _ => {}
                }
            }
            old.edges.extend(wide_parents.iter().map(|p| (wide, *p)));
            new.edges.extend(new_parents.iter().map(|p| (wide, *p)));
            new.ann_calls = new.canonical_ann_calls();
            Case { old, new, edits, path }
        })
        .boxed()
}

/// One side, or both, has no terms at all but carries records (an ontology the Builder makes from add_gene /
/// add_*_disease calls alone): "empty" is a statement about terms, not about genes and diseases.
fn termless_strategy() -> BoxedStrategy<Case> {
    let cfg = GenCfg::small().terms(2, 6).recs(3).standard().names(NameMode::Plain);
    (gen::facts(cfg), vec((0usize..3, 0u8..4, name_strategy(NameMode::Plain)), 0..5), 0u8..4)
        .prop_map(|(mut full, script, which)| {
            let mut bare = Facts { version: full.version, ..Default::default() };
            for k in 0..3 {
                for r in &full.recs[k] {
                    bare.recs[k].push(RecFact { id: r.id, name: r.name.clone(), terms: vec![] });
                }
            }
            let mut edited = bare.clone();
            let mut edits = vec!["ontology-without-terms".to_string()];
            for (k, what, name) in script {
                match what {
                    0 if !edited.recs[k].is_empty() && edited.recs[k][0].name != name => {
                        edited.recs[k][0].name = name;
                        edits.push("rename-record".into());
                    }
                    1 if !edited.recs[k].is_empty() => {
                        edited.recs[k].pop();
                        edits.push("remove-record".into());
                    }
                    2 => {
                        let id = 900 + edited.recs[k].len() as u32;
                        if !edited.recs[k].iter().any(|r| r.id == id) {
                            edited.recs[k].push(RecFact { id, name, terms: vec![] });
                            edits.push("add-record".into());
                        }
                    }
                    _ => {}
                }
            }
            full.ann_calls = full.canonical_ann_calls();
            let (mut old, mut new) = match which {
                0 => (bare, full),
                1 => (full, edited),
                2 => (bare, edited),
                _ => (edited, bare),
            };
            old.ann_calls = old.canonical_ann_calls();
            new.ann_calls = new.canonical_ann_calls();
            Case { old, new, edits, path: PathSel::Builder }
        })
        .boxed()
}

/// A record whose direct terms change from one set to another of the same size that coincides with it under the
/// usual cheap checksums of a list of ids: sum and xor ({1,6} / {2,5} / {3,4}), h*31+id ({300,400} / {299,431}),
/// h*33+id ({300,400} / {299,433}) and the 32-bit FNV polynomial h*0x01000193+id ({300,400} / {44,103568}).
fn colliding_sets_strategy() -> BoxedStrategy<Case> {
    const SETS: [(&[u32], &[u32]); 6] = [(&[1, 6], &[2, 5]), (&[2, 5], &[3, 4]), (&[1, 6], &[3, 4]), (&[300, 400], &[299, 431]), (&[300, 400], &[299, 433]), (&[300, 400], &[44, 103_568])];
    (0usize..6, 0usize..3, any::<bool>(), any::<bool>(), prop_oneof![3 => Just(PathSel::Bin(3)), 1 => Just(PathSel::Builder), 1 => Just(PathSel::Jax)]).prop_map(|(fam, k, swap, rename, path)| {
        let mut old = Facts { version: (2024, 5, 6), ..Default::default() };
        old.terms.push(TermFact { id: 1, name: "All".into(), obsolete: false, replacement: None });
        old.terms.push(TermFact { id: 118, name: "Phenotypic abnormality".into(), obsolete: false, replacement: None });
        old.edges.push((118, 1));
        for id in [2u32, 3, 4, 5, 6, 44, 299, 300, 400, 431, 433, 103_568] {
            old.terms.push(TermFact { id, name: format!("t{id}"), obsolete: false, replacement: None });
            old.edges.push((id, 118));
        }
        let (a, b) = if swap { (SETS[fam].1, SETS[fam].0) } else { SETS[fam] };
        old.recs[k].push(RecFact { id: 7, name: "record".into(), terms: a.to_vec() });
        old.recs[(k + 1) % 3].push(RecFact { id: 7, name: "bystander".into(), terms: vec![118, 300] });
        let mut new = old.clone();
        new.recs[k][0].terms = b.to_vec();
        if rename {
            new.recs[k][0].name = "record, renamed".into();
        }
        old.ann_calls = old.canonical_ann_calls();
        new.ann_calls = new.canonical_ann_calls();
        Case { old, new, edits: vec!["links-replaced-by-a-set-with-the-same-checksum".into()], path }
    })
    .boxed()
}

fn strategy(tier: Tier) -> BoxedStrategy<Case> {
    prop_oneof![48 => small_strategy(tier), 4 => wide_record_strategy(), 2 => termless_strategy(), 1 => colliding_sets_strategy()].boxed()
}

fn small_strategy(tier: Tier) -> BoxedStrategy<Case> {
    let max = if tier == Tier::Quick { 12 } else { 40 };
    // names up to 300 bytes; for the binary paths they are cut to the 255 bytes the format stores
    let cfg = GenCfg::small().terms(2, max).recs(4).standard().with_flags(true).names(NameMode::Rich);
    let paths = prop_oneof![6 => Just(PathSel::Bin(3)), 2 => Just(PathSel::Bin(2)), 1 => Just(PathSel::Bin(1)), 2 => Just(PathSel::Jax), 1 => Just(PathSel::JaxT), 1 => Just(PathSel::RoundTrip)];
    (gen::facts(cfg), vec((0usize..EDIT_KINDS.len(), any::<[u16; 3]>(), name_strategy(NameMode::Plain)), 0..=4), paths, 0u8..4)
        .prop_map(|(old, script, path, vsel)| {
            let mut new = old.clone();
            // the release versions of the two sides: equal, or the first / the second argument carries the later one
            // (which side is "old" is decided by the argument order, not by the versions)
            match vsel {
                1 => new.version = (old.version.0.saturating_sub(1), old.version.1, old.version.2),
                2 => new.version = (old.version.0.saturating_add(1), old.version.1 % 12 + 1, 1),
                _ => {}
            }
            let mut edits = Vec::new();
            for (kind, p, name) in script {
                if let Some(k) = apply_edit(&mut new, kind, p, &name) {
                    edits.push(k.to_string());
                }
            }
            new.ann_calls = new.canonical_ann_calls();
            let mut old = old;
            if !matches!(path, PathSel::Jax | PathSel::JaxT) {
                for f in [&mut old, &mut new] {
                    for t in f.terms.iter_mut() {
                        if t.replacement == Some(0) {
                            t.replacement = None;
                        }
                    }
                    for t in f.terms.iter_mut() {
                        t.name = char_prefix(&t.name, 255).to_string();
                    }
                    for r in f.recs[GENE].iter_mut() {
                        r.name = char_prefix(&r.name, 255).to_string();
                    }
                }
            }
            Case { old, new, edits, path }
        })
        .boxed()
}

impl Property for C18 {
    fn id(&self) -> &'static str {
        "C18"
    }
    fn rule(&self) -> String {
        "Generated: a base fact set (the two sides carry equal release versions, or either side the later one; both ontologies built through own v3 / v2 / v1 bytes, the as_bytes round trip or JAX files; obsolete terms, replacements to existing and to non-existing ids, records of all kinds) and an edit script of 0-4 edits out of 15 kinds (rename term, add/remove parent link, flip obsolete, set replacement to an existing / non-existing id, clear replacement, change replacement between two ids that are not terms, add/remove term, add/remove/rename record, add/remove link); one case in thirteen has 34-72 terms and per kind a record directly on >= 31 of them, with links added / removed at the lowest id, the highest id or in between, plus a leaf term with >= 31 direct parents whose parent list is edited the same way. One case in 55 replaces the direct terms of a record by a set of the same size with the same sum and xor, or the same h*31+id / h*33+id / 32-bit FNV value; one case in 27 compares ontologies of which one or both have no terms at all but carry records (Builder: add_gene / add_*_disease only). Oracle: the difference computed on the two fact sets: added/removed id sets per entity kind; changed terms with exact name pair, added/removed parent sets, obsolete pair, replacement id pair; changed records with name pair, added/removed terms, n_terms; every list free of duplicates; compare(new,old) is the mirror image; compare(o,o) reports nothing and compare(o, roundtrip(o)) exactly the names the binary format cuts at 255 bytes (text path: names up to 300 bytes; one rename in three extends the old name, so that long names share a long prefix, one in three only swaps the ASCII case of its letters, one in four adds or removes the affix 'obsolete ' / ' (obsolete)'). evaluations = comparisons. Non-trivial = the two fact sets differ; every edit kind must occur as a single-edit script in a run; distinct by hash of the case.".into()
    }
    fn assumptions(&self) -> Vec<String> {
        vec!["'replacement' of a term is the replacement id stored with it (replacement_id), whether or not that id is a term of the same ontology".into()]
    }
    fn cases(&self, tier: Tier) -> u64 {
        match tier {
            Tier::Quick => 150_000,
            Tier::Thorough => 1_500_000,
        }
    }
    fn required_labels(&self, _tier: Tier) -> Vec<&'static str> {
        vec![
            "nontrivial", "single:rename-term", "single:add-parent", "single:remove-parent", "single:flip-obsolete", "single:set-replacement-existing", "single:set-replacement-dangling",
            "single:clear-replacement", "single:add-term", "single:remove-term", "single:add-record", "single:remove-record", "single:rename-record", "single:add-link", "single:remove-link",
            "single:change-replacement-dangling-to-dangling", "name-longer-than-255-bytes", "bulk>65535-terms", "replacement-id-0", "record-with-more-than-30-terms-on-both-sides-changed", "term-with-more-than-30-parents-on-both-sides-changed", "ontology-without-terms", "edit:links-replaced-by-a-set-with-the-same-checksum", "first-argument-has-the-later-release-version",
        ]
    }
    fn run_generated(&self, tier: Tier, seed: u64, n: u64, stats: &mut Stats) -> Option<(Value, Failure)> {
        run_typed(strategy(tier), seed, n, stats, check)
    }
    fn replay(&self, case: &Value, stats: &mut Stats) -> Result<CheckResult, String> {
        if let Some(b) = case.get("bulk") {
            // (terms, mult, records per kind, selector): two ontologies of more than 65 535 terms that differ by a
            // handful of edits spread over early and late terms
            let v: (u32, u32, u32, u16) = serde_json::from_value(b.clone()).map_err(|e| e.to_string())?;
            stats.cases += 1;
            let old = super::common::bulk_facts(v.0, v.1, v.2);
            let mut new = old.clone();
            let mut edits = Vec::new();
            let sel = v.3;
            for (i, kind) in [0usize, 2, 7, 8, 11, 13].iter().enumerate() {
                let p = [sel.wrapping_mul(31).wrapping_add((i as u16).wrapping_mul(9973)), sel.wrapping_add((i as u16).wrapping_mul(20_011)), (i as u16) * 3 + 1];
                if let Some(k) = apply_edit(&mut new, *kind, p, &format!("edited {i}")) {
                    edits.push(k.to_string());
                }
            }
            new.ann_calls = new.canonical_ann_calls();
            let r = check(&Case { old, new, edits, path: PathSel::Bin(3) }, stats);
            if r.is_ok() {
                stats.label("bulk>65535-terms");
            }
            return Ok(r);
        }
        replay_typed::<Case, _>(case, stats, check)
    }
    fn isolated_plans(&self, tier: Tier, seed: u64) -> Vec<Value> {
        let sel = (seed % 60_000) as u16;
        let mut out = vec![json!({"bulk": (65_900u32, 7919u32, 30u32, sel)})];
        if tier == Tier::Thorough {
            out.push(json!({"bulk": (70_000u32, 104_729u32, 300u32, sel.wrapping_add(7))}));
        }
        out
    }
}
