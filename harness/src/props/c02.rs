//! C02 — annotations reach exactly the ancestors; records stay direct.

use super::common::*;
use crate::model::*;
use crate::observe::*;
use crate::runner::*;
use crate::{ensure, gen};
use hpo::annotations::{AnnotationId, Disease, GeneId, OmimDiseaseId, OrphaDiseaseId};
use serde_json::{json, Value};
use std::collections::BTreeSet;

pub struct C02;

/// a record with two direct terms whose upward closures overlap: linking the
/// second one runs into terms that already carry the record (early-exit branch)
fn early_exit_shape(m: &Model) -> bool {
    for k in 0..3 {
        for (_, ts) in m.direct[k].values() {
            let ts: Vec<u32> = ts.iter().copied().filter(|t| m.has(*t)).collect();
            for a in &ts {
                for b in &ts {
                    if a != b && m.anc[m.i(*a)].intersection(&m.anc_self(*b)).next().is_some() {
                        return true;
                    }
                }
            }
        }
    }
    false
}

pub fn check(c: &OntCase, stats: &mut Stats) -> CheckResult {
    let b = build_case(c, stats)?;
    let e = Expect {
        model: &b.model,
        defaults: c.path.defaults(),
        term_name: &ident,
        rec_name: &ident_rec,
    };
    let diffs = diff_model(&b.snap, &e, &[Group::Annot, Group::Problems]);
    let diffs: Vec<Diff> = diffs
        .into_iter()
        .filter(|d| {
            d.group == Group::Annot
                || ["gene", "omim", "orpha", "to_hpo_set", "lookup"]
                    .iter()
                    .any(|w| d.what.contains(w))
        })
        .collect();
    first_diff_failure(&diffs, "annot", c.path)?;
    let m = &b.model;
    // lookups by id: right kind only
    let mut all_ids: BTreeSet<u32> = BTreeSet::new();
    for k in 0..3 {
        all_ids.extend(m.direct[k].keys().copied());
    }
    all_ids.extend([0, 1, 4, u32::MAX - 1, 999]);
    for id in &all_ids {
        stats.eval(3);
        let g = b.ont.gene(&GeneId::from(*id));
        ensure!(
            g.is_some() == m.direct[GENE].contains_key(id) && g.is_none_or(|g| g.id().as_u32() == *id),
            format!("annot/{}/gene-lookup", c.path.name()),
            "gene({id}) -> {:?}, gene ids are {:?}",
            g.map(|g| g.id().as_u32()),
            m.direct[GENE].keys()
        );
        let o = b.ont.omim_disease(&OmimDiseaseId::from(*id));
        ensure!(
            o.is_some() == m.direct[OMIM].contains_key(id) && o.is_none_or(|g| g.id().as_u32() == *id),
            format!("annot/{}/omim-lookup", c.path.name()),
            "omim_disease({id}) -> {:?}, omim ids are {:?}",
            o.map(|g| g.id().as_u32()),
            m.direct[OMIM].keys()
        );
        let o = b.ont.orpha_disease(&OrphaDiseaseId::from(*id));
        ensure!(
            o.is_some() == m.direct[ORPHA].contains_key(id) && o.is_none_or(|g| g.id().as_u32() == *id),
            format!("annot/{}/orpha-lookup", c.path.name()),
            "orpha_disease({id}) -> {:?}, orpha ids are {:?}",
            o.map(|g| g.id().as_u32()),
            m.direct[ORPHA].keys()
        );
    }
    stats.eval((m.len() * 3) as u64);
    for l in gen::labels(&b.expected, m) {
        stats.label(l);
    }
    if early_exit_shape(m) {
        stats.label("nontrivial");
        let mut h = Fnv::new();
        h.u64(b.expected.canonical_hash());
        h.bytes(c.path.name().as_bytes());
        stats.nontrivial(h.finish());
        stats.sample(|| {
            json!({"path": c.path.name(), "edges": b.expected.edges,
                   "genes": b.expected.recs[GENE], "omim": b.expected.recs[OMIM], "orpha": b.expected.recs[ORPHA],
                   "inherited_genes": m.ids.iter().map(|i| (i.to_string(), m.inh[GENE][m.i(*i)].iter().copied().collect::<Vec<u32>>())).collect::<std::collections::BTreeMap<_,_>>()})
        });
    }
    Ok(())
}

impl Property for C02 {
    fn id(&self) -> &'static str {
        "C02"
    }
    fn rule(&self) -> String {
        "Generated: C01 graphs plus 0-8 records per kind from a shared id pool (the same number is a gene, an OMIM and an ORPHA id with different links), 0-5 direct terms each with extra links to ancestors/descendants of an already linked term, repeated facts, records without terms, explicit add_* calls, shuffled call order; every construction path. Oracle: inherited set of a term = records with a direct term equal to it or among its descendants (set union over the model closure), per kind; resolving iterators equal id accessors; each record's hpo_terms = its direct terms only; lookups by id find the right kind only. Deterministic sub-sweep in fresh processes: ontologies of 65 537 - 70 000 terms with 40-300 records per kind, and is_a chains of 300 - 5000 links with records at all depths, through the same oracle. evaluations = term-kind sets + lookups compared. Non-trivial = a record with two direct terms whose upward closures overlap (second link hits terms that already carry it: the early-exit branch); distinct = hash(canonical facts, path).".into()
    }
    fn assumptions(&self) -> Vec<String> {
        vec![
            "annotation facts reference existing terms (failing calls are C15)".into(),
            "one name per record id; binary v1/v2 cannot express ORPHA, JAX cannot express records without terms (restricted expectation)".into(),
        ]
    }
    fn cases(&self, tier: Tier) -> u64 {
        match tier {
            Tier::Quick => 90_000,
            Tier::Thorough => 800_000,
        }
    }
    fn required_labels(&self, _tier: Tier) -> Vec<&'static str> {
        vec!["nontrivial", "ancestors>30", "parents>30", "records>255", "same-id-two-kinds", "rec-without-terms", "link-on-term-and-ancestor", "bulk>65535-terms", "depth>255", "direct-parents>255"]
    }
    fn run_generated(&self, tier: Tier, seed: u64, n: u64, stats: &mut Stats) -> Option<(Value, Failure)> {
        let max = if tier == Tier::Quick { 44 } else { 90 };
        run_typed(ont_case_strategy(max, 8, false), seed, n, stats, check)
    }
    fn replay(&self, case: &Value, stats: &mut Stats) -> Result<CheckResult, String> {
        if let Some(b) = case.get("bulk") {
            // a large ontology (see `bulk_facts`) with records of all kinds, through the ordinary check
            let v: (u32, u32, u32, PathSel) = serde_json::from_value(b.clone()).map_err(|e| e.to_string())?;
            stats.cases += 1;
            let c = OntCase { facts: bulk_facts(v.0, v.1, v.2), path: v.3, noise: Default::default() };
            let r = check(&c, stats);
            if r.is_ok() {
                stats.label("bulk>65535-terms");
            }
            return Ok(r);
        }
        if let Some(b) = case.get("deep") {
            // an is_a chain of `depth` links with records at all depths, through the ordinary check
            let v: (u32, u32, u32, PathSel) = serde_json::from_value(b.clone()).map_err(|e| e.to_string())?;
            stats.cases += 1;
            let c = OntCase { facts: deep_facts(v.0, v.1, v.2), path: v.3, noise: Default::default() };
            let r = check(&c, stats);
            if r.is_ok() {
                stats.label("depth>255");
            }
            return Ok(r);
        }
        if let Some(b) = case.get("fanin") {
            // one term with more direct parents than an 8-bit counter holds (see `fanin_facts`)
            let v: (u32, u32, u32, PathSel) = serde_json::from_value(b.clone()).map_err(|e| e.to_string())?;
            stats.cases += 1;
            let c = OntCase { facts: super::common::fanin_facts(v.0, v.1, v.2), path: v.3, noise: Default::default() };
            let r = check(&c, stats);
            if r.is_ok() {
                stats.label("direct-parents>255");
            }
            return Ok(r);
        }
        replay_typed::<OntCase, _>(case, stats, check)
    }
    fn isolated_plans(&self, tier: Tier, seed: u64) -> Vec<Value> {
        let mult = [104_729u32, 7919, 1_299_709, 15_485_863 % 9_999_991][(seed % 4) as usize];
        let mut plans = vec![(66_100u32, mult, 60u32, PathSel::Bin(3)), (65_600, mult, 40, PathSel::Builder)];
        if tier == Tier::Thorough {
            plans.push((70_000, mult, 300, PathSel::RoundTrip));
            plans.push((65_537, mult, 60, PathSel::BuilderDefaults));
        }
        let mut out: Vec<Value> = plans.into_iter().map(|p| json!({"bulk": p})).collect();
        let mut deep = vec![(300u32, mult, 12u32, PathSel::Builder), (1100, mult, 30, PathSel::Bin(3))];
        if tier == Tier::Thorough {
            deep.push((5000, mult, 40, PathSel::RoundTrip));
            deep.push((300, mult, 12, PathSel::JaxT));
            deep.push((600, mult, 20, PathSel::Bin(1)));
        }
        out.extend(deep.into_iter().map(|p| json!({"deep": p})));
        out.push(json!({"fanin": (300u32, mult, 12u32, PathSel::Bin(3))}));
        if tier == Tier::Thorough {
            out.push(json!({"fanin": (70_000u32, mult, 40u32, PathSel::RoundTrip)}));
        }
        out
    }
}
