//! C05 — set similarity combines the pairwise matrix as funSimAvg / funSimMax / BMA.

use crate::gen::pick;
use crate::model::*;
use crate::observe::guarded;
use crate::runner::*;
use crate::ensure;
use hpo::annotations::AnnotationId;
use hpo::matrix::Matrix;
use hpo::similarity::{CachedSimilarity, GroupSimilarity, Similarity, SimilarityCombiner, StandardCombiner};
use hpo::term::HpoGroup;
use hpo::{HpoSet, HpoTerm, Ontology};
use proptest::collection::vec;
use proptest::prelude::*;
use serde::{Deserialize, Serialize};
use serde_json::{json, Value};
use std::cell::Cell;
use std::rc::Rc;

pub struct C05;

pub const NT: usize = 40;

/// The ids of the 40 leaf terms (ascending): a dense block and ids chosen so that id pairs coincide under
/// mixed-radix / shifted keys a*M + b for M = 2^8, 10^3, 10^4, 2^16, 10^5, 2^17, 10^6, 2^20, 3*10^6, 2^23
/// (e.g. (5, 3_000_007) and (8, 7) for M = 10^6), plus the largest id.
pub const IDS: [u32; NT] = [
    1, 2, 3, 4, 5, 6, 7, 8, 9, 10, 11, 12, 13, 14, 15, 16, 17, 18, 19, 20, 21, 22, 23, 24, 25, 26, 27, 28, 29, 261, 1005, 10_004, 65_543, 100_006, 131_080, 1_000_003, 1_048_585,
    3_000_007, 8_388_615, 9_999_999,
];

fn index_of(id: u32) -> usize {
    IDS.binary_search(&id).expect("term of the fixture")
}

#[derive(Clone, Debug, Serialize, Deserialize, PartialEq)]
pub enum Case {
    Matrix {
        rows: usize,
        cols: usize,
        data: Vec<f32>,
        /// every entry is multiplied by 10^scale_exp (magnitude classes; 0 = as generated)
        #[serde(default)]
        scale_exp: i8,
    },
    IntMatrix { rows: usize, cols: usize },
    Sets {
        table: Vec<f32>,
        pairs: Vec<(Vec<u8>, Vec<u8>)>,
        #[serde(default)]
        scale_exp: i8,
    },
}

/// `close_f32` on values divided by the magnitude class `s` of the case
fn close_s(x: f32, y: f64, rel: f64, s: f64) -> bool {
    if y.is_infinite() {
        // an unbounded score makes the documented combination infinite: exactly that must come back
        return f64::from(x) == y;
    }
    x.is_finite() && (f64::from(x) / s - y / s).abs() <= rel * (y / s).abs().max(1.0)
}

/// Entries equal to `f32::MAX` stand for +infinity, entries equal to `f32::MIN` for -infinity (JSON has no
/// infinite numbers); the others are scaled.
fn scaled(data: &[f32], scale_exp: i8) -> (Vec<f32>, f64) {
    let s = 10f64.powi(i32::from(scale_exp));
    let one = |v: &f32| {
        if *v == f32::MAX {
            f32::INFINITY
        } else if *v == f32::MIN {
            f32::NEG_INFINITY
        } else {
            (f64::from(*v) * s) as f32
        }
    };
    (data.iter().map(one).collect(), s)
}

/// One case in four has scores of -infinity instead of +infinity (the logarithm of an overlap of zero; never both
/// in one case: their sum has no value), in half of these a whole row or column of the matrix / every score of
/// one term is -infinity.
fn with_negative_infinity(data: &mut [f32], rows: usize, cols: usize, sel: u16) {
    if sel % 4 != 0 {
        return;
    }
    for v in data.iter_mut() {
        if *v == f32::MAX {
            *v = f32::MIN;
        }
    }
    if rows == 0 || cols == 0 {
        return;
    }
    let k = (sel / 16) as usize;
    match (sel / 4) % 4 {
        0 => (0..cols).for_each(|j| data[(k % rows) * cols + j] = f32::MIN),
        1 => (0..rows).for_each(|i| data[i * cols + k % cols] = f32::MIN),
        _ => {}
    }
}

thread_local! {
    static FLAT: Ontology = {
        // loaded from own v3 bytes: every fifth term is flagged obsolete, some name a replacement
        // (flags must not influence set similarities)
        let mut f = Facts::default();
        f.terms.push(TermFact { id: 100, name: "root".into(), obsolete: false, replacement: None });
        f.terms.push(TermFact { id: 118, name: "phenotype".into(), obsolete: false, replacement: None });
        f.edges.push((118, 100));
        for (i, id) in IDS.iter().enumerate() {
            let i = i as u32;
            f.terms.push(TermFact { id: *id, name: format!("t{i}"), obsolete: i % 5 == 0, replacement: if i % 10 == 0 { Some(IDS[i as usize + 1]) } else { None } });
            if i != 0 {
                f.edges.push((*id, 100));
            }
        }
        // a few records of every kind (set similarity / clustering must not depend on annotations)
        for k in 0..3usize {
            for r in 1..=4u32 {
                let terms: Vec<u32> = f.terms.iter().map(|t| t.id).filter(|id| (id + r + k as u32) % (3 + r) == 0).take(12).collect();
                f.recs[k].push(RecFact { id: r, name: format!("r{k}{r}"), terms });
            }
        }
        crate::build::via_binary(&f, 3).expect("flat ontology")
    };
}

/// user supplied similarity: looks the pair up in a (possibly asymmetric) table
#[derive(Clone)]
struct Table {
    t: Rc<Vec<f32>>,
    calls: Rc<Cell<u64>>,
}
impl Similarity for Table {
    fn calculate(&self, a: &HpoTerm, b: &HpoTerm) -> f32 {
        self.calls.set(self.calls.get() + 1);
        self.t[index_of(a.id().as_u32()) * NT + index_of(b.id().as_u32())]
    }
}

pub fn reference(comb: StandardCombiner, rows: usize, cols: usize, m: &dyn Fn(usize, usize) -> f64) -> f64 {
    if rows == 0 || cols == 0 {
        return 0.0;
    }
    let row_max: Vec<f64> = (0..rows).map(|i| (0..cols).map(|j| m(i, j)).fold(f64::NEG_INFINITY, f64::max)).collect();
    let col_max: Vec<f64> = (0..cols).map(|j| (0..rows).map(|i| m(i, j)).fold(f64::NEG_INFINITY, f64::max)).collect();
    let rs: f64 = row_max.iter().sum();
    let cs: f64 = col_max.iter().sum();
    match comb {
        StandardCombiner::FunSimAvg => (rs / rows as f64 + cs / cols as f64) / 2.0,
        StandardCombiner::FunSimMax => (rs / rows as f64).max(cs / cols as f64),
        StandardCombiner::Bma => (rs + cs) / (rows + cols) as f64,
    }
}

const COMBS: [(StandardCombiner, &str); 3] = [
    (StandardCombiner::FunSimAvg, "funsimavg"),
    (StandardCombiner::FunSimMax, "funsimmax"),
    (StandardCombiner::Bma, "bma"),
];

fn check_matrix(rows: usize, cols: usize, data: &[f32], s: f64, stats: &mut Stats) -> CheckResult {
    ensure!(data.len() == rows * cols, "harness/bad-case", "matrix case with wrong data length");
    let m = Matrix::new(rows, cols, data);
    ensure!(m.dim() == (rows, cols) && m.len() == data.len() && m.is_empty() == data.is_empty(), "matrix/dim", "dim/len/is_empty wrong for {rows}x{cols}");
    for (comb, name) in COMBS {
        stats.eval(1);
        let want = reference(comb, rows, cols, &|i, j| f64::from(data[i * cols + j]));
        let got = match guarded(|| comb.calculate(&m)) {
            Ok(v) => v,
            Err(p) => return fail(format!("combiner/{name}/panic"), format!("{name} on {rows}x{cols} panicked: {p}")),
        };
        let shape = if rows == cols { "square" } else { "rectangular" };
        ensure!(close_s(got, want, 1e-4, s), format!("combiner/{name}/{shape}"), "{name} of {rows}x{cols} matrix {data:?} = {got}, definition gives {want}");
    }
    // exactness where no rounding can occur: all entries equal to one finite value v (sums of 2^k copies of v and
    // their division by 2^k are exact, also among the subnormal numbers) - every combination is v itself
    // (partial sums of up to 8 copies stay exact: three spare mantissa bits, or a subnormal below 2^20 units)
    let spare_bits = |v: f32| {
        let b = v.abs().to_bits();
        if b < 0x0080_0000 { b < (1 << 20) } else { b & 7 == 0 }
    };
    if !data.is_empty() && data.iter().all(|x| x.to_bits() == data[0].to_bits()) && data[0].is_finite() && data[0].abs() < 1e37 && spare_bits(data[0]) && rows.is_power_of_two() && cols.is_power_of_two() && rows <= 8 && cols <= 8 {
        let v = data[0];
        for (comb, name) in COMBS {
            if comb == StandardCombiner::Bma && rows != cols {
                continue;
            }
            let got = comb.calculate(&m);
            ensure!(got.to_bits() == v.to_bits() || (got == 0.0 && v == 0.0), format!("combiner/{name}/constant-matrix"), "{name} of a {rows}x{cols} matrix whose entries are all {v:e} = {got:e}");
        }
        stats.label("matrix:constant");
        if v != 0.0 && v.abs() < f32::MIN_POSITIVE {
            stats.label("matrix:constant-subnormal");
        }
    }
    // name parsing of the combiner
    for (comb, name) in COMBS {
        ensure!(StandardCombiner::try_from(name).ok() == Some(comb), "combiner/try_from", "StandardCombiner::try_from({name:?})");
    }
    if rows != cols && rows > 0 && cols > 0 {
        let rm: f64 = reference(StandardCombiner::FunSimMax, rows, cols, &|i, j| f64::from(data[i * cols + j]));
        let avg: f64 = reference(StandardCombiner::FunSimAvg, rows, cols, &|i, j| f64::from(data[i * cols + j]));
        if (rm - avg).abs() > 1e-9 {
            stats.label("nontrivial");
            stats.label("matrix:rect-row!=col-means");
            stats.nontrivial(hash_json(&(rows, cols, data)));
            stats.sample(|| json!({"rows": rows, "cols": cols, "data": data, "funsimavg": avg, "funsimmax": rm}));
        }
    }
    if rows == 0 || cols == 0 {
        stats.label("matrix:empty");
    }
    if rows.max(cols) >= 40 {
        stats.label("matrix:1x40");
    }
    Ok(())
}

fn check_int_matrix(rows: usize, cols: usize, stats: &mut Stats) -> CheckResult {
    let data: Vec<u32> = (0..(rows * cols) as u32).collect();
    let m = Matrix::new(rows, cols, &data);
    stats.eval(1);
    let r = guarded(|| {
        let rs: Vec<Vec<u32>> = m.rows().map(|r| r.copied().collect()).collect();
        let cs: Vec<Vec<u32>> = m.cols().map(|c| c.copied().collect()).collect();
        (rs, cs)
    });
    let (rs, cs) = match r {
        Ok(v) => v,
        Err(p) => return fail("matrix/panic", format!("rows()/cols() on {rows}x{cols} panicked: {p}")),
    };
    if rows > 0 && cols > 0 {
        let want_r: Vec<Vec<u32>> = (0..rows).map(|i| (0..cols).map(|j| (i * cols + j) as u32).collect()).collect();
        let want_c: Vec<Vec<u32>> = (0..cols).map(|j| (0..rows).map(|i| (i * cols + j) as u32).collect()).collect();
        ensure!(rs == want_r, "matrix/rows", "rows() of {rows}x{cols} = {rs:?}");
        ensure!(cs == want_c, "matrix/cols", "cols() of {rows}x{cols} = {cs:?}");
    }
    stats.label("int-matrix");
    Ok(())
}

fn to_set<'a>(o: &'a Ontology, v: &[u8]) -> HpoSet<'a> {
    let mut g = HpoGroup::new();
    for x in v {
        g.insert(IDS[usize::from(*x) % NT]);
    }
    HpoSet::new(o, g)
}

fn check_sets(table: &[f32], pairs: &[(Vec<u8>, Vec<u8>)], scale: f64, stats: &mut Stats) -> CheckResult {
    ensure!(table.len() == NT * NT, "harness/bad-case", "table must have NT*NT entries");
    let symmetric = (0..NT).all(|i| (0..NT).all(|j| table[i * NT + j].to_bits() == table[j * NT + i].to_bits()));
    FLAT.with(|o| {
        let tab = Table { t: Rc::new(table.to_vec()), calls: Rc::new(Cell::new(0)) };
        // one cache per combiner, shared by the whole sequence of pairs
        let cached: Vec<GroupSimilarity<CachedSimilarity<Table>, StandardCombiner>> =
            COMBS.iter().map(|(c, _)| GroupSimilarity::new(*c, CachedSimilarity::new(tab.clone()))).collect();
        let term_cache = CachedSimilarity::new(tab.clone());
        for (pi, (a, b)) in pairs.iter().enumerate() {
            let sa = to_set(o, a);
            let sb = to_set(o, b);
            let ia: Vec<usize> = sa.iter().map(|t| index_of(t.id().as_u32())).collect();
            let ib: Vec<usize> = sb.iter().map(|t| index_of(t.id().as_u32())).collect();
            for (ci, (comb, name)) in COMBS.iter().enumerate() {
                stats.eval(1);
                let want = reference(*comb, ia.len(), ib.len(), &|i, j| f64::from(table[ia[i] * NT + ib[j]]));
                let r = guarded(|| {
                    let g = GroupSimilarity::new(*comb, tab.clone()).calculate(&sa, &sb);
                    let s = sa.similarity(&sb, tab.clone(), *comb);
                    let rev = GroupSimilarity::new(*comb, tab.clone()).calculate(&sb, &sa);
                    let c1 = cached[ci].calculate(&sa, &sb);
                    let c2 = cached[ci].calculate(&sa, &sb);
                    let crev = cached[ci].calculate(&sb, &sa);
                    (g, s, rev, c1, c2, crev)
                });
                let (g, s, rev, c1, c2, crev) = match r {
                    Ok(v) => v,
                    Err(p) => return fail(format!("group/{name}/panic"), format!("set similarity of {ia:?} x {ib:?} panicked: {p}")),
                };
                let shape = if ia.is_empty() || ib.is_empty() { "empty" } else if ia.len() == ib.len() { "square" } else { "rectangular" };
                ensure!(close_s(g, want, 1e-4, scale), format!("group/{name}/{shape}"), "GroupSimilarity({name}) of sets {ia:?} x {ib:?} = {g}, combination of the pair matrix gives {want}");
                ensure!(s.to_bits() == g.to_bits(), format!("group/{name}/hposet-similarity"), "HpoSet::similarity = {s}, GroupSimilarity = {g}");
                if symmetric {
                    ensure!(
                        rev == g || (f64::from(rev) - f64::from(g)).abs() / scale <= 1e-6 * (want / scale).abs().max(1.0),
                        format!("group/{name}/argument-order"),
                        "symmetric term similarity, but sim(A,B) = {g} and sim(B,A) = {rev} for {ia:?} x {ib:?}"
                    );
                } else {
                    let want_rev = reference(*comb, ib.len(), ia.len(), &|i, j| f64::from(table[ib[i] * NT + ia[j]]));
                    ensure!(close_s(rev, want_rev, 1e-4, scale), format!("group/{name}/transposed"), "sim(B,A) = {rev}, expected {want_rev}");
                }
                ensure!(
                    c1.to_bits() == g.to_bits() && c2.to_bits() == g.to_bits() && crev.to_bits() == rev.to_bits(),
                    format!("cache/{name}"),
                    "pair {pi}: cached results ({c1}, second visit {c2}, transposed {crev}) differ from uncached ({g}, transposed {rev}) for {ia:?} x {ib:?}"
                );
            }
            // a set compared with ITSELF (the same object on both sides): the matrix is T[A_i][A_j],
            // not its symmetrisation
            if !ia.is_empty() {
                for (ci, (comb, name)) in COMBS.iter().enumerate() {
                    stats.eval(1);
                    let want = reference(*comb, ia.len(), ia.len(), &|i, j| f64::from(table[ia[i] * NT + ia[j]]));
                    let r = guarded(|| (GroupSimilarity::new(*comb, tab.clone()).calculate(&sa, &sa), sa.similarity(&sa, tab.clone(), *comb), cached[ci].calculate(&sa, &sa)));
                    let (g, s2, c) = match r {
                        Ok(v) => v,
                        Err(p) => return fail(format!("group/{name}/panic"), format!("similarity of the set {ia:?} with itself panicked: {p}")),
                    };
                    ensure!(close_s(g, want, 1e-4, scale), format!("group/{name}/same-object"), "GroupSimilarity({name}) of the set {ia:?} with itself (same object) = {g}, combination of the pair matrix gives {want}");
                    ensure!(s2.to_bits() == g.to_bits() && c.to_bits() == g.to_bits(), format!("group/{name}/same-object"), "set {ia:?} with itself: HpoSet::similarity {s2}, cached {c}, GroupSimilarity {g}");
                }
                if ia.len() >= 2 && !symmetric {
                    stats.label("sets:same-object-asymmetric-table");
                }
            }
            // term level cache: (a,b), (b,a), (a,b) again
            for x in sa.iter() {
                for y in sb.iter() {
                    let w1 = table[index_of(x.id().as_u32()) * NT + index_of(y.id().as_u32())];
                    let w2 = table[index_of(y.id().as_u32()) * NT + index_of(x.id().as_u32())];
                    let c = (term_cache.calculate(&x, &y), term_cache.calculate(&y, &x), term_cache.calculate(&x, &y));
                    ensure!(
                        c.0.to_bits() == w1.to_bits() && c.1.to_bits() == w2.to_bits() && c.2.to_bits() == w1.to_bits(),
                        "cache/term-level",
                        "CachedSimilarity on ({},{}) gave {c:?}, table says ({w1},{w2},{w1})",
                        x.id(),
                        y.id()
                    );
                }
            }
            if ia.len() != ib.len() && !ia.is_empty() && !ib.is_empty() {
                stats.label("sets:unequal-sizes");
                stats.label("nontrivial");
                stats.nontrivial(hash_json(&(table, a, b)));
                stats.sample(|| json!({"A": ia, "B": ib, "symmetric_table": symmetric, "pairs_in_sequence": pairs.len()}));
            }
            if ia.is_empty() || ib.is_empty() {
                stats.label("sets:empty");
            }
            if ia.len() > 30 || ib.len() > 30 {
                stats.label("sets:more-than-30-members");
            }
        }
        if symmetric {
            stats.label("sets:symmetric-table");
        } else {
            stats.label("sets:asymmetric-table");
        }
        if pairs.len() > 1 {
            stats.label("sets:cache-reused-over-several-pairs");
        }
        Ok(())
    })
}

pub fn check(c: &Case, stats: &mut Stats) -> CheckResult {
    match c {
        Case::Matrix { rows, cols, data, scale_exp } => {
            let (d, s) = scaled(data, *scale_exp);
            if d.iter().take(rows * cols).any(|v| *v == f32::INFINITY) {
                stats.label("infinite-score");
            }
            if d.iter().take(rows * cols).any(|v| *v == f32::NEG_INFINITY) {
                stats.label("negative-infinite-score");
                ensure!(!d.contains(&f32::INFINITY), "harness/bad-case", "+inf and -inf in one matrix");
                if (0..*rows).any(|i| (0..*cols).all(|j| d[i * cols + j] == f32::NEG_INFINITY)) || (0..*cols).any(|j| (0..*rows).all(|i| d[i * cols + j] == f32::NEG_INFINITY)) {
                    stats.label("row-or-column-of-negative-infinity");
                }
            }
            if *scale_exp != 0 {
                stats.label(if *scale_exp > 0 { "magnitude:huge" } else { "magnitude:tiny" });
            }
            if *rows >= 2 && rows == cols && (0..*rows).all(|i| (0..*cols).map(|j| d[i * cols + j]).fold(f32::NEG_INFINITY, f32::max) == 1.0) && (0..*cols).any(|j| (0..*rows).all(|i| d[i * cols + j] != 1.0)) {
                stats.label("square:every-row-has-a-perfect-match-some-column-has-none");
            }
            check_matrix(*rows, *cols, &d, s, stats)
        }
        Case::IntMatrix { rows, cols } => check_int_matrix(*rows, *cols, stats),
        Case::Sets { table, pairs, scale_exp } => {
            let (t, s) = scaled(table, *scale_exp);
            ensure!(!(t.contains(&f32::INFINITY) && t.contains(&f32::NEG_INFINITY)), "harness/bad-case", "+inf and -inf in one table");
            if *scale_exp != 0 {
                stats.label(if *scale_exp > 0 { "magnitude:huge" } else { "magnitude:tiny" });
            }
            check_sets(&t, pairs, s, stats)
        }
    }
}

/// finite values with many duplicates: a grid k/8 in [-2, 6], plus a few arbitrary finite values
fn value() -> impl Strategy<Value = f32> {
    prop_oneof![
        16 => (0u8..65).prop_map(|k| f32::from(k) / 8.0 - 2.0),
        2 => (-1000.0f32..1000.0),
        2 => Just(0.0f32),
        // stands for +infinity (see `scaled`): an unbounded score, e.g. 1 / distance for identical terms
        1 => Just(f32::MAX),
    ]
}

/// one case in six is scaled to a far-away magnitude (sums of 90 entries stay below f32::MAX)
fn scale() -> impl Strategy<Value = i8> {
    prop_oneof![10 => Just(0i8), 1 => Just(30i8), 1 => Just(-30i8), 1 => -36i8..=33]
}

/// One case in eight looks like a normalised similarity: no score above 1, a perfect match (exactly 1.0) in every
/// row, and perfect matches only in every third column, so that several rows find theirs in the same column and
/// other columns have none.
fn normalised(data: &mut [f32], rows: usize, cols: usize, sel: u16) {
    if sel % 8 != 1 || rows == 0 || cols == 0 {
        return;
    }
    for i in 0..rows {
        for j in 0..cols {
            let v = &mut data[i * cols + j];
            if *v == f32::MAX || *v == f32::MIN || *v >= 1.0 {
                *v = if j % 3 == 0 { 1.0 } else { 0.5 };
            }
        }
        let j = ((sel as usize / 8 + i * 7) % cols) / 3 * 3;
        data[i * cols + j] = 1.0;
    }
}

fn strategy() -> BoxedStrategy<Case> {
    let matrix = (prop_oneof![8 => (0usize..=8, 0usize..=8), 1 => Just((1usize, 40usize)), 1 => Just((40usize, 1usize))], vec(value(), 64), vec(any::<u16>(), 64), scale())
        .prop_map(|((rows, cols), vals, picks, scale_exp)| {
            // few distinct values per matrix → duplicates / ties among maxima
            let mut data: Vec<f32> = (0..rows * cols).map(|i| vals[pick(picks[i % 64], 1 + (i % 7))]).collect();
            with_negative_infinity(&mut data, rows, cols, picks[63]);
            normalised(&mut data, rows, cols, picks[62]);
            let scale_exp = if picks[62] % 8 == 1 { 0 } else { scale_exp };
            Case::Matrix { rows, cols, data, scale_exp }
        });
    // constant matrices with 2^k rows and columns, values from the whole finite range incl. the subnormal numbers
    let constant = (0u32..4, 0u32..4, prop_oneof![
        3 => (1u32..16).prop_map(f32::from_bits),
        2 => (1u32..(1 << 20)).prop_map(f32::from_bits),
        1 => (1u32..(1 << 20)).prop_map(|b| -f32::from_bits(b)),
        2 => (-1000.0f32..1000.0).prop_map(|v| f32::from_bits(v.to_bits() & !7)),
        1 => Just(0.0f32),
        1 => (0x0080_0000u32..0x7d00_0000).prop_map(|b| f32::from_bits(b & !7)),
    ])
        .prop_map(|(r, c, v)| Case::Matrix { rows: 1 << r, cols: 1 << c, data: vec![v; (1usize << r) << c], scale_exp: 0 });
    let int_matrix = (0usize..=9, 0usize..=9).prop_map(|(rows, cols)| Case::IntMatrix { rows, cols });
    let sets = (vec(value(), NT * NT), any::<bool>(), vec((prop_oneof![12 => vec(any::<u8>(), 0..=8), 1 => vec(any::<u8>(), 40..=90)], prop_oneof![12 => vec(any::<u8>(), 0..=8), 1 => vec(any::<u8>(), 40..=90)]), 1..=6), scale()).prop_map(|(mut table, symmetric, pairs, scale_exp)| {
        // (the selector is derived from the generated sets; a term whose scores are all -infinity gets them in both directions)
        let sel = pairs.iter().flat_map(|(a, b)| a.iter().chain(b.iter())).fold(pairs.len() as u16, |h, x| h.wrapping_mul(31).wrapping_add(u16::from(*x)));
        with_negative_infinity(&mut table, NT, NT, sel);
        if sel % 4 == 0 && (sel / 4) % 4 < 2 {
            let k = (sel / 16) as usize % NT;
            for i in 0..NT {
                table[i * NT + k] = f32::MIN;
                table[k * NT + i] = f32::MIN;
            }
        }
        normalised(&mut table, NT, NT, sel.rotate_left(5));
        let scale_exp = if sel.rotate_left(5) % 8 == 1 { 0 } else { scale_exp };
        if symmetric {
            for i in 0..NT {
                for j in 0..i {
                    table[i * NT + j] = table[j * NT + i];
                }
            }
        }
        Case::Sets { table, pairs, scale_exp }
    });
    prop_oneof![10 => matrix, 1 => constant, 2 => int_matrix, 8 => sets].boxed()
}

const NT_BIG: u32 = 66_003;

thread_local! {
    static FLAT_BIG: Ontology = {
        let mut f = Facts::default();
        f.terms.push(TermFact { id: 1, name: "root".into(), obsolete: false, replacement: None });
        for i in 2..=NT_BIG {
            f.terms.push(TermFact { id: i, name: format!("t{i}"), obsolete: i % 9 == 0, replacement: None });
            f.edges.push((i, 1));
        }
        crate::build::via_binary(&f, 3).expect("flat ontology")
    };
}

/// asymmetric pseudo-random similarity in [-1, 3), a function of the two ids
#[derive(Clone)]
struct HashSim(u64);
impl HashSim {
    fn value(&self, a: u32, b: u32) -> f32 {
        let mut h = Fnv::new();
        h.u64(self.0);
        h.u64(u64::from(a));
        h.u64(u64::from(b) << 20);
        ((h.finish() >> 44) as f32) / 262_144.0 - 1.0
    }
}
impl Similarity for HashSim {
    fn calculate(&self, a: &HpoTerm, b: &HpoTerm) -> f32 {
        self.value(a.id().as_u32(), b.id().as_u32())
    }
}

/// Sets of more than 128 / 255 / 1024 / 4096 / 65 534 members (sums over long vectors of maxima): `na` x `nb` terms of a flat
/// 4200-term ontology, an asymmetric similarity that is a function of the ids.
pub fn check_big_sets(na: u32, nb: u32, seed: u64, stats: &mut Stats) -> CheckResult {
    ensure!(na < NT_BIG && nb < NT_BIG, "harness/bad-case", "set too large for the fixture");
    let ia: Vec<u32> = (0..na).map(|i| 2 + (i * 3 + (seed % 3) as u32) % (NT_BIG - 1)).collect::<std::collections::BTreeSet<u32>>().into_iter().collect();
    let ib: Vec<u32> = (0..nb).map(|i| 2 + (i * 5 + (seed % 5) as u32) % (NT_BIG - 1)).collect::<std::collections::BTreeSet<u32>>().into_iter().collect();
    let sim = HashSim(seed);
    FLAT_BIG.with(|o| {
        let mk = |ids: &[u32]| {
            let mut g = HpoGroup::new();
            for t in ids {
                g.insert(*t);
            }
            HpoSet::new(o, g)
        };
        let (sa, sb) = (mk(&ia), mk(&ib));
        for (comb, name) in COMBS {
            stats.eval(1);
            let want = reference(comb, ia.len(), ib.len(), &|i, j| f64::from(sim.value(ia[i], ib[j])));
            let r = guarded(|| {
                let g = GroupSimilarity::new(comb, sim.clone()).calculate(&sa, &sb);
                let s = sa.similarity(&sb, sim.clone(), comb);
                let c = GroupSimilarity::new(comb, CachedSimilarity::new(sim.clone())).calculate(&sa, &sb);
                (g, s, c)
            });
            let (g, s2, c) = match r {
                Ok(v) => v,
                Err(p) => return fail(format!("group/{name}/panic"), format!("set similarity of {} x {} terms panicked: {p}", ia.len(), ib.len())),
            };
            ensure!(close_f32(g, want, 1e-4), format!("group/{name}/big-sets"), "GroupSimilarity({name}) of {} x {} terms = {g}, combination of the pair matrix gives {want}", ia.len(), ib.len());
            ensure!(s2.to_bits() == g.to_bits() && c.to_bits() == g.to_bits(), format!("group/{name}/big-sets"), "{} x {} terms: HpoSet::similarity {s2}, cached {c}, GroupSimilarity {g}", ia.len(), ib.len());
        }
        Ok(())
    })?;
    if ia.len().max(ib.len()) > 128 {
        stats.label("sets:more-than-128-members");
    }
    if ia.len().max(ib.len()) > 255 {
        stats.label("sets:more-than-255-members");
    }
    if ia.len().max(ib.len()) > 1024 && ia.len() != ib.len() {
        stats.label("sets:more-than-1024-members-unequal-sizes");
    }
    Ok(())
}

impl C05 {
    fn sweep_sizes(tier: Tier) -> Vec<(u32, u32)> {
        // both operands long, and one long operand against a short one in both orders, across 128 / 256 / 1024 / 2048 / 4096
        let mut sizes = vec![(129u32, 4u32), (128, 128), (4, 130), (200, 150), (257, 1), (300, 256), (64, 65), (3, 1025), (1025, 3), (1024, 1025), (2, 2049), (2049, 2), (4097, 1), (1, 4097),
            // the two sizes together exceed a 16-bit counter (each alone does not)
            (65_535, 1), (1, 65_535), (65_534, 3),
            // "0 if either set is empty" for every size of the other set, also beyond what a non-empty matrix can hold
            (65_535, 0), (0, 65_535), (65_536, 0), (0, 65_536), (66_001, 0), (0, 65_790), (300, 0), (0, 0)];
        if tier == Tier::Thorough {
            sizes.extend([(699, 513), (1, 699), (255, 255), (512, 129), (1100, 1030), (2050, 1500), (4100, 600), (600, 4100), (1025, 1025)]);
        }
        sizes
    }
}

impl Property for C05 {
    fn id(&self) -> &'static str {
        "C05"
    }
    fn rule(&self) -> String {
        "Generated: (a) raw r x c matrices, r,c in 0..=8 plus 1x40 and 40x1, f32 entries (finite, occasionally +infinity; in one case of four -infinity instead, in half of those a whole row or column / every score of one term; one case in eight is normalised: no score above 1, exactly 1.0 in every row but only in every third column) drawn from few values per matrix (ties among maxima), one case in six scaled by 10^e, e in -36..=33 (compared after dividing by the scale), through StandardCombiner::{FunSimAvg,FunSimMax,Bma}::calculate; integer matrices for rows()/cols()/dim()/len() against index arithmetic; (b) on a flat 40-term ontology: sequences of 1-6 pairs of term sets (sizes 0..=8, occasionally 31-40 members) and a user-supplied Similarity that looks pairs up in a generated 40x40 table (asymmetric or symmetrised), through GroupSimilarity::calculate and HpoSet::similarity; (c) the same sequence through one CachedSimilarity per combiner (second visit, transposed pair), every set also compared with itself as the same object on both sides, and term-level (a,b),(b,a),(a,b); (d) fixed-size sweeps on a flat 66 003-term ontology with an asymmetric similarity that is a function of the two ids: both sets long, or one long set against a short one in both orders, with sizes across 128 / 256 / 1024 / 2048 / 4096 (quick up to 65 535 x 1, thorough up to 2050 x 1500), and an empty set against sets of 300 - 66 001 members in both orders. Constant matrices with 2^k rows and columns (values from the whole finite range incl. the subnormal numbers) must give exactly that value. Oracle: the three definitions evaluated in f64 on M[i][j] = T[A_i][B_j] (ascending ids), tolerance 1e-4; 0 for an empty side; argument-order independence for symmetric tables (1e-6); cached results bit-identical to uncached. evaluations = combiner evaluations. Non-trivial = non-square non-empty matrix whose row-max mean differs from its column-max mean, or a set pair of unequal non-zero sizes; distinct by hash of the case.".into()
    }
    fn assumptions(&self) -> Vec<String> {
        vec!["term similarities are finite, +infinity or -infinity, the two infinities never within one matrix (NaN is outside the domain: maxima are taken with '>', and inf - inf has no value)".into(), "f32 sums compared with f64 reference within 1e-4 relative".into()]
    }
    fn cases(&self, tier: Tier) -> u64 {
        match tier {
            Tier::Quick => 240_000,
            Tier::Thorough => 3_000_000,
        }
    }
    fn required_labels(&self, _tier: Tier) -> Vec<&'static str> {
        vec!["nontrivial", "matrix:rect-row!=col-means", "matrix:empty", "matrix:1x40", "int-matrix", "sets:unequal-sizes", "sets:empty", "sets:more-than-30-members", "sets:symmetric-table", "sets:asymmetric-table", "sets:cache-reused-over-several-pairs", "sets:same-object-asymmetric-table", "magnitude:huge", "magnitude:tiny", "sets:more-than-128-members", "sets:more-than-255-members", "sets:more-than-1024-members-unequal-sizes", "infinite-score", "negative-infinite-score", "row-or-column-of-negative-infinity", "square:every-row-has-a-perfect-match-some-column-has-none", "matrix:constant", "matrix:constant-subnormal"]
    }
    fn run_generated(&self, _tier: Tier, seed: u64, n: u64, stats: &mut Stats) -> Option<(Value, Failure)> {
        run_typed(strategy(), seed, n, stats, check)
    }
    fn replay(&self, case: &Value, stats: &mut Stats) -> Result<CheckResult, String> {
        if let Some(b) = case.get("big_sets") {
            let v: (u32, u32, u64) = serde_json::from_value(b.clone()).map_err(|e| e.to_string())?;
            stats.cases += 1;
            return Ok(check_big_sets(v.0, v.1, v.2, stats));
        }
        replay_typed::<Case, _>(case, stats, check)
    }
    fn isolated_plans(&self, tier: Tier, seed: u64) -> Vec<Value> {
        // the long sweeps run beside the workers, each in its own process
        Self::sweep_sizes(tier).into_iter().filter(|(a, b)| a.max(b) >= &1024).map(|(a, b)| json!({"big_sets": (a, b, seed)})).collect()
    }
    fn extra(&self, tier: Tier, seed: u64, stats: &mut Stats) -> Vec<(Value, Failure)> {
        let sizes: Vec<(u32, u32)> = Self::sweep_sizes(tier).into_iter().filter(|(a, b)| *a.max(b) < 1024).collect();
        let mut out = Vec::new();
        for (a, b) in sizes {
            stats.cases += 1;
            if let Err(f) = check_big_sets(a, b, seed, stats) {
                out.push((json!({"big_sets": (a, b, seed)}), f));
            }
        }
        out
    }
}
