//! C01 — ancestor sets are the exact transitive closure of is_a.

use super::common::*;
use crate::model::*;
use crate::observe::*;
use crate::runner::*;
use crate::{ensure, gen};
use hpo::annotations::AnnotationId;
use serde_json::{json, Value};

pub struct C01;

pub fn check(c: &OntCase, stats: &mut Stats) -> CheckResult {
    let b = build_case(c, stats)?;
    let e = Expect {
        model: &b.model,
        defaults: c.path.defaults(),
        term_name: &ident,
        rec_name: &ident_rec,
    };
    let diffs = diff_model(&b.snap, &e, &[Group::Closure, Group::Problems]);
    // only closure-related read-API problems belong to this property
    let diffs: Vec<Diff> = diffs
        .into_iter()
        .filter(|d| {
            d.group == Group::Closure
                || d.what.contains("parents")
                || d.what.contains("children")
                || d.what.contains("iter")
        })
        .collect();
    first_diff_failure(&diffs, "closure", c.path)?;
    // the term set itself
    let ids: Vec<u32> = b.snap.terms.keys().copied().collect();
    ensure!(
        ids == b.model.ids,
        format!("closure/{}/term-set", c.path.name()),
        "term ids {:?} != {:?}",
        ids,
        b.model.ids
    );
    // child_of / parent_of for all ordered pairs
    let m = &b.model;
    for a in &m.ids {
        let ta = b.ont.hpo(*a).unwrap();
        for bb in &m.ids {
            let tb = b.ont.hpo(*bb).unwrap();
            let exp = m.anc[m.i(*a)].contains(bb);
            stats.eval(1);
            ensure!(
                ta.child_of(&tb) == exp,
                format!("closure/{}/child_of", c.path.name()),
                "{a}.child_of({bb}) = {} but ancestors of {a} are {:?}",
                ta.child_of(&tb),
                m.anc[m.i(*a)]
            );
            ensure!(
                tb.parent_of(&ta) == exp,
                format!("closure/{}/parent_of", c.path.name()),
                "{bb}.parent_of({a}) = {} but ancestors of {a} are {:?}",
                tb.parent_of(&ta),
                m.anc[m.i(*a)]
            );
        }
    }
    for l in gen::labels(&b.expected, m) {
        stats.label(l);
    }
    if m.has_diamond() && m.depth() >= 3 {
        stats.label("nontrivial");
        let mut h = Fnv::new();
        h.u64(b.expected.canonical_hash());
        h.bytes(c.path.name().as_bytes());
        stats.nontrivial(h.finish());
        stats.sample(|| {
            json!({"path": c.path.name(), "terms": m.ids, "edges": b.expected.edges,
                   "ancestors": m.ids.iter().map(|i| (i.to_string(), m.anc[m.i(*i)].iter().copied().collect::<Vec<u32>>())).collect::<std::collections::BTreeMap<_,_>>()})
        });
    }
    Ok(())
}

/// Closure, inverse child relation and child_of / parent_of on an ontology with `n` terms
/// (see `bulk_facts`), every term compared with the reference model.
pub fn check_bulk(n: u32, mult: u32, path: PathSel, stats: &mut Stats) -> CheckResult {
    let f = bulk_facts(n, mult, 0);
    let r = check_big(&f, n, path, stats);
    if r.is_ok() {
        stats.label("bulk>65535-terms");
        stats.count("bulk_terms", u64::from(n));
    }
    r
}

/// The same comparison on a deep ontology (see `deep_facts`): is_a chains longer than 255 / 4096 links.
pub fn check_deep(depth: u32, mult: u32, path: PathSel, stats: &mut Stats) -> CheckResult {
    let f = deep_facts(depth, mult, 0);
    let r = check_big(&f, depth, path, stats);
    if r.is_ok() {
        stats.label("depth>255");
        if depth > 4096 {
            stats.label("depth>4096");
        }
    }
    r
}

fn check_big(f: &Facts, n: u32, path: PathSel, stats: &mut Stats) -> CheckResult {
    let f = f.clone();
    let ont = match build_path(&f, path, &Default::default()) {
        Ok(o) => o,
        Err(e) => return fail(format!("construct/{}/bulk", path.name()), format!("{n} terms: {e}")),
    };
    let m = Model::new(&expected_facts(&f, path));
    let pn = path.name();
    let r = guarded(|| -> CheckResult {
        ensure!(ont.len() == m.len(), format!("closure/{pn}/bulk/term-set"), "len() = {} for {} terms", ont.len(), m.len());
        let mut sample_pairs = 0u64;
        for (i, id) in m.ids.iter().enumerate() {
            let Some(t) = ont.hpo(*id) else { return fail(format!("closure/{pn}/bulk/term-set"), format!("term {id} missing ({n} terms)")) };
            let got: Vec<u32> = t.all_parent_ids().iter().map(|x| x.as_u32()).collect();
            let want: Vec<u32> = m.anc[i].iter().copied().collect();
            ensure!(got == want, format!("closure/{pn}/bulk/all_parents"), "{n} terms: all_parents of {id} = {got:?}, closure is {want:?}");
            let gp: Vec<u32> = t.parent_ids().iter().map(|x| x.as_u32()).collect();
            ensure!(gp == m.parents[i].iter().copied().collect::<Vec<u32>>(), format!("closure/{pn}/bulk/parents"), "{n} terms: parents of {id} = {gp:?}, facts say {:?}", m.parents[i]);
            let gc: Vec<u32> = t.children_ids().iter().map(|x| x.as_u32()).collect();
            ensure!(gc == m.children[i].iter().copied().collect::<Vec<u32>>(), format!("closure/{pn}/bulk/children"), "{n} terms: children of {id} = {gc:?}, inverse of the parent relation is {:?}", m.children[i]);
            let resolved: Vec<u32> = t.all_parents().map(|x| x.id().as_u32()).collect();
            ensure!(resolved == want, format!("closure/{pn}/bulk/all_parents-iterator"), "{n} terms: all_parents() of {id} resolves to {resolved:?}");
            // child_of / parent_of against a stride of other terms
            let mut j = (i * 7919) % m.len();
            for _ in 0..6 {
                let other = m.ids[j];
                let to = ont.hpo(other).unwrap();
                let exp = m.anc[i].contains(&other);
                ensure!(t.child_of(&to) == exp && to.parent_of(&t) == exp, format!("closure/{pn}/bulk/child_of"), "{n} terms: {id}.child_of({other}) / parent_of disagree with the closure ({exp})");
                sample_pairs += 1;
                j = (j + 104_729) % m.len();
            }
        }
        stats.eval(m.len() as u64 + sample_pairs);
        Ok(())
    });
    match r {
        Ok(r) => r?,
        Err(p) => return fail(format!("closure/{pn}/bulk/panic"), p),
    }
    Ok(())
}

impl Property for C01 {
    fn id(&self) -> &'static str {
        "C01"
    }
    fn rule(&self) -> String {
        "Generated: acyclic is_a graphs (random / chain / diamond ladder / fan / chain+shortcut shapes, 0-3 parents per node, several roots, detached nodes), injective id assignment (dense, sparse, borders), shuffled supply order, pushed through one construction path (Builder minimal/defaults, own v1/v2/v3 encoder -> from_bytes, as_bytes round trip, rendered JAX files -> from_standard / from_standard_transitive; sub_ontology results are covered by C14 with the same closure oracle). Oracle: BFS transitive closure on the facts; parents, children (exact inverse), all_parents (nothing missing/extra, never self), resolving iterators equal id accessors, child_of/parent_of for ALL ordered pairs. Deterministic sub-sweep (both tiers): ontologies of 65 536 - 131 100 terms (every node k has the parents k/2 and k/3, ids scattered, deepest terms supplied first) through the Builder and the binary loader, every term's parents / children / all_parents compared with the model, child_of / parent_of on a stride of pairs; the same on is_a chains of 300 - 20 000 links (with redundant shortcuts and side leaves). evaluations = ordered pairs checked. Non-trivial = some node has >=2 parents sharing an ancestor AND depth >= 3; distinct = hash(canonical facts, path).".into()
    }
    fn assumptions(&self) -> Vec<String> {
        vec![
            "is_a graph acyclic, parents exist, one name per id (domain of every construction path)".into(),
            "term ids < 10^7 (arena size); obo stanzas separated by exactly one blank line".into(),
            "bounds: <= 72 terms quick / 130 thorough (ancestor sets beyond the 30 ids a group stores inline occur in both tiers)".into(),
        ]
    }
    fn cases(&self, tier: Tier) -> u64 {
        match tier {
            Tier::Quick => 70_000,
            Tier::Thorough => 600_000,
        }
    }
    fn required_labels(&self, _tier: Tier) -> Vec<&'static str> {
        vec!["nontrivial", "ancestors>30", "parents>30", "children>30", "many-parents-few-ancestors", "records>255", "diamond", "multiroot", "detached", "id0", "id9999999", "bulk>65535-terms", "depth>255", "depth>4096", "direct-parents>255"]
    }
    fn run_generated(&self, tier: Tier, seed: u64, n: u64, stats: &mut Stats) -> Option<(Value, Failure)> {
        let max = if tier == Tier::Quick { 72 } else { 130 };
        run_typed(ont_case_strategy(max, 4, false), seed, n, stats, check)
    }
    fn replay(&self, case: &Value, stats: &mut Stats) -> Result<CheckResult, String> {
        if let Some(b) = case.get("bulk") {
            let v: (u32, u32, PathSel) = serde_json::from_value(b.clone()).map_err(|e| e.to_string())?;
            stats.cases += 1;
            return Ok(check_bulk(v.0, v.1, v.2, stats));
        }
        if let Some(b) = case.get("deep") {
            let v: (u32, u32, PathSel) = serde_json::from_value(b.clone()).map_err(|e| e.to_string())?;
            stats.cases += 1;
            return Ok(check_deep(v.0, v.1, v.2, stats));
        }
        if let Some(b) = case.get("fanin") {
            // one term with more direct parents than an 8-bit counter holds
            let v: (u32, u32, PathSel) = serde_json::from_value(b.clone()).map_err(|e| e.to_string())?;
            stats.cases += 1;
            let r = check_big(&super::common::fanin_facts(v.0, v.1, 0), v.0, v.2, stats);
            if r.is_ok() {
                stats.label("direct-parents>255");
            }
            return Ok(r);
        }
        replay_typed::<OntCase, _>(case, stats, check)
    }
    fn isolated_plans(&self, tier: Tier, seed: u64) -> Vec<Value> {
        // more terms than a 16-bit slot index addresses, through the Builder and the binary loader
        let mult = [7919u32, 104_729, 15_485_863 % 9_999_991, 32_452_843 % 9_999_991][(seed % 4) as usize];
        let mut plans = vec![(65_700u32, mult, PathSel::Builder), (70_001, mult, PathSel::Bin(3))];
        if tier == Tier::Thorough {
            plans.push((131_100, mult, PathSel::RoundTrip));
            plans.push((66_000, mult, PathSel::BuilderDefaults));
            plans.push((65_536, mult, PathSel::Bin(1)));
        }
        let mut out: Vec<Value> = plans.into_iter().map(|p| json!({"bulk": p})).collect();
        // is_a chains deeper than an 8-bit / 12-bit counter
        let mut deep = vec![(300u32, mult, PathSel::Builder), (5000, mult, PathSel::Bin(3))];
        if tier == Tier::Thorough {
            deep.push((1100, mult, PathSel::RoundTrip));
            deep.push((300, mult, PathSel::Jax));
            deep.push((20_000, mult, PathSel::Bin(2)));
        }
        out.extend(deep.into_iter().map(|p| json!({"deep": p})));
        out.push(json!({"fanin": (300u32, mult, PathSel::Bin(3))}));
        out.push(json!({"fanin": (257u32, mult, PathSel::Builder)}));
        if tier == Tier::Thorough {
            out.push(json!({"fanin": (70_000u32, mult, PathSel::RoundTrip)}));
            out.push(json!({"fanin": (300u32, mult, PathSel::Jax)}));
            out.push(json!({"fanin": (256u32, mult, PathSel::Bin(1))}));
        }
        out
    }
}
