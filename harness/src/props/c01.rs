//! C01 — ancestor sets are the exact transitive closure of is_a.

use super::common::*;
use crate::model::*;
use crate::observe::*;
use crate::runner::*;
use crate::{ensure, gen};
use serde_json::{json, Value};

pub struct C01;

pub fn check(c: &OntCase, stats: &mut Stats) -> CheckResult {
    let b = build_case(c, stats)?;
    let e = Expect {
        model: &b.model,
        defaults: c.path.defaults(),
        term_name: &ident,
        rec_name: &ident_rec,
    };
    let diffs = diff_model(&b.snap, &e, &[Group::Closure, Group::Problems]);
    // only closure-related read-API problems belong to this property
    let diffs: Vec<Diff> = diffs
        .into_iter()
        .filter(|d| {
            d.group == Group::Closure
                || d.what.contains("parents")
                || d.what.contains("children")
                || d.what.contains("iter")
        })
        .collect();
    first_diff_failure(&diffs, "closure", c.path)?;
    // the term set itself
    let ids: Vec<u32> = b.snap.terms.keys().copied().collect();
    ensure!(
        ids == b.model.ids,
        format!("closure/{}/term-set", c.path.name()),
        "term ids {:?} != {:?}",
        ids,
        b.model.ids
    );
    // child_of / parent_of for all ordered pairs
    let m = &b.model;
    for a in &m.ids {
        let ta = b.ont.hpo(*a).unwrap();
        for bb in &m.ids {
            let tb = b.ont.hpo(*bb).unwrap();
            let exp = m.anc[m.i(*a)].contains(bb);
            stats.eval(1);
            ensure!(
                ta.child_of(&tb) == exp,
                format!("closure/{}/child_of", c.path.name()),
                "{a}.child_of({bb}) = {} but ancestors of {a} are {:?}",
                ta.child_of(&tb),
                m.anc[m.i(*a)]
            );
            ensure!(
                tb.parent_of(&ta) == exp,
                format!("closure/{}/parent_of", c.path.name()),
                "{bb}.parent_of({a}) = {} but ancestors of {a} are {:?}",
                tb.parent_of(&ta),
                m.anc[m.i(*a)]
            );
        }
    }
    for l in gen::labels(&b.expected, m) {
        stats.label(l);
    }
    if m.has_diamond() && m.depth() >= 3 {
        stats.label("nontrivial");
        let mut h = Fnv::new();
        h.u64(b.expected.canonical_hash());
        h.bytes(c.path.name().as_bytes());
        stats.nontrivial(h.finish());
        stats.sample(|| {
            json!({"path": c.path.name(), "terms": m.ids, "edges": b.expected.edges,
                   "ancestors": m.ids.iter().map(|i| (i.to_string(), m.anc[m.i(*i)].iter().copied().collect::<Vec<u32>>())).collect::<std::collections::BTreeMap<_,_>>()})
        });
    }
    Ok(())
}

impl Property for C01 {
    fn id(&self) -> &'static str {
        "C01"
    }
    fn rule(&self) -> String {
        "Generated: acyclic is_a graphs (random / chain / diamond ladder / fan / chain+shortcut shapes, 0-3 parents per node, several roots, detached nodes), injective id assignment (dense, sparse, borders), shuffled supply order, pushed through one construction path (Builder minimal/defaults, own v1/v2/v3 encoder -> from_bytes, as_bytes round trip, rendered JAX files -> from_standard / from_standard_transitive; sub_ontology results are covered by C14 with the same closure oracle). Oracle: BFS transitive closure on the facts; parents, children (exact inverse), all_parents (nothing missing/extra, never self), resolving iterators equal id accessors, child_of/parent_of for ALL ordered pairs. evaluations = ordered pairs checked. Non-trivial = some node has >=2 parents sharing an ancestor AND depth >= 3; distinct = hash(canonical facts, path).".into()
    }
    fn assumptions(&self) -> Vec<String> {
        vec![
            "is_a graph acyclic, parents exist, one name per id (domain of every construction path)".into(),
            "term ids < 10^7 (arena size); obo stanzas separated by exactly one blank line".into(),
            "bounds: <= 72 terms quick / 130 thorough (ancestor sets beyond the 30 ids a group stores inline occur in both tiers)".into(),
        ]
    }
    fn cases(&self, tier: Tier) -> u64 {
        match tier {
            Tier::Quick => 70_000,
            Tier::Thorough => 600_000,
        }
    }
    fn required_labels(&self, _tier: Tier) -> Vec<&'static str> {
        vec!["nontrivial", "ancestors>30", "parents>30", "children>30", "many-parents-few-ancestors", "records>255", "diamond", "multiroot", "detached", "id0", "id9999999"]
    }
    fn run_generated(&self, tier: Tier, seed: u64, n: u64, stats: &mut Stats) -> Option<(Value, Failure)> {
        let max = if tier == Tier::Quick { 72 } else { 130 };
        run_typed(ont_case_strategy(max, 4, false), seed, n, stats, check)
    }
    fn replay(&self, case: &Value, stats: &mut Stats) -> Result<CheckResult, String> {
        replay_typed::<OntCase, _>(case, stats, check)
    }
}
