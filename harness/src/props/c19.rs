//! C19 — default categories and modifiers classify every term as documented.

use hpo::annotations::AnnotationId;
use super::common::*;
use crate::build::*;
use crate::gen::{self, GenCfg, NameMode};
use crate::model::*;
use crate::observe::*;
use crate::runner::*;
use proptest::prelude::*;
use serde::{Deserialize, Serialize};
use serde_json::{json, Value};

pub struct C19;

#[derive(Clone, Debug, Serialize, Deserialize, PartialEq)]
pub struct Case {
    pub base: OntCase,
    /// 0: keep both roots, 1: drop HP:0000001, 2: drop HP:0000118, 3: drop both
    pub drop_roots: u8,
    /// 0: built with defaults by the path itself. Otherwise the facts go through the Builder
    /// (`build_minimal`) and the public setters are called on the result: 1 categories then
    /// modifier, 2 modifier then categories, 3 categories only, 4 categories, modifier, categories,
    /// 5 modifier only, 6 / 7 like 1 / 2 after both groups were filled with other terms through
    /// `modifier_mut()` / `categories_mut()`
    #[serde(default)]
    pub setters: u8,
}

/// `build_minimal` followed by the public default setters in the order selected by `sel`.
fn build_with_setters(f: &Facts, sel: u8) -> Result<hpo::Ontology, String> {
    let mut o = via_builder(f, Finish::Minimal)?;
    guarded(|| -> Result<(), String> {
        let order: &[u8] = match sel {
            1 | 6 => &[0, 1],
            2 | 7 => &[1, 0],
            3 => &[0],
            4 => &[0, 1, 0],
            _ => &[1],
        };
        if sel >= 6 {
            // the groups were customised before (any terms of the ontology): the setters must
            // replace, not extend, what they find
            let ids: Vec<hpo::HpoTermId> = o.hpos().map(|t| t.id()).collect();
            let (mut cm, mut cc) = (std::collections::BTreeSet::new(), std::collections::BTreeSet::new());
            for (i, id) in ids.iter().enumerate() {
                if i % 2 == 0 {
                    o.modifier_mut().insert(*id);
                    cm.insert(id.as_u32());
                }
                if i % 3 != 1 {
                    o.categories_mut().insert(*id);
                    cc.insert(id.as_u32());
                }
            }
            // every term is classified under the customised groups first (a query between two changes of
            // the groups: whatever a query remembers must not survive the setters)
            let m = Model::new(&expected_facts(f, PathSel::Builder));
            for t in o.hpos() {
                let id = t.id().as_u32();
                let got: Vec<u32> = t.categories().iter().map(|c| c.as_u32()).collect();
                let want = m.categories_with(id, &cc);
                if t.is_modifier() != m.is_modifier_with(id, &cm) || got != want {
                    return Err(format!("CUSTOM groups (modifier roots {cm:?}, categories {cc:?}): term {id} is_modifier {} categories {got:?}, expected {} {want:?}", t.is_modifier(), m.is_modifier_with(id, &cm)));
                }
            }
        }
        for step in order {
            if *step == 0 {
                o.set_default_categories().map_err(|e| format!("set_default_categories: {e}"))?;
            } else {
                o.set_default_modifier().map_err(|e| format!("set_default_modifier: {e}"))?;
            }
        }
        Ok(())
    })
    .map_err(|p| format!("PANIC in the default setters: {p}"))??;
    Ok(o)
}

fn drop_term(f: &mut Facts, id: u32) {
    f.terms.retain(|t| t.id != id);
    f.edges.retain(|(c, p)| *c != id && *p != id);
    for t in f.terms.iter_mut() {
        if t.replacement == Some(id) {
            t.replacement = None;
        }
    }
    for k in 0..3 {
        for r in f.recs[k].iter_mut() {
            r.terms.retain(|t| *t != id);
        }
    }
    f.ann_calls.retain(|c| c.term != Some(id));
}

pub fn check(c: &Case, stats: &mut Stats) -> CheckResult {
    let mut oc = c.base.clone();
    if c.drop_roots & 1 != 0 {
        drop_term(&mut oc.facts, 1);
    }
    if c.drop_roots & 2 != 0 {
        drop_term(&mut oc.facts, 118);
    }
    // records that lost all their terms cannot be rendered as text
    if matches!(oc.path, PathSel::Jax | PathSel::JaxT) {
        for k in 0..3 {
            oc.facts.recs[k].retain(|r| !r.terms.is_empty());
        }
        let f2 = oc.facts.clone();
        oc.facts.ann_calls.retain(|c| c.term.is_some() && f2.recs[c.kind as usize].iter().any(|r| r.id == c.rec));
    }
    if c.setters != 0 {
        oc.path = PathSel::Builder;
    }
    let pn = if c.setters != 0 { format!("setters-{}", c.setters) } else { oc.path.name() };
    stats.eval(1);
    if c.setters != 0 {
        stats.label("public-setters-after-build_minimal");
        let exp = expected_facts(&oc.facts, PathSel::Builder);
        let built = build_with_setters(&oc.facts, c.setters);
        if c.drop_roots != 0 {
            stats.label("missing-root");
            // set_default_modifier needs HP:0000001 only
            let must_fail = c.drop_roots & 1 != 0 || c.setters != 5;
            return match built {
                Err(e) if e.starts_with("PANIC") => fail(format!("missing-root/panic/{pn}"), format!("default setters without a root term panic instead of returning an error: {e}")),
                Err(_) => {
                    stats.nontrivial(oc.facts.canonical_hash() ^ u64::from(c.drop_roots) ^ (u64::from(c.setters) << 8));
                    Ok(())
                }
                Ok(_) if must_fail => fail(format!("missing-root/accepted/{pn}"), "the default setters succeed although a root term is missing".to_string()),
                Ok(_) => Ok(()),
            };
        }
        let ont = match built {
            Ok(o) => o,
            Err(e) if e.starts_with("CUSTOM") => return fail(format!("classification/{pn}/custom-groups"), e),
            Err(e) => return fail(format!("construct/{pn}"), e),
        };
        let model = Model::new(&exp);
        let snap = guarded(|| observe(&ont)).map_err(|p| Failure { signature: format!("observe-panic/{pn}"), message: p })?;
        let e = Expect { model: &model, defaults: true, term_name: &ident, rec_name: &ident_rec };
        let diffs: Vec<Diff> = diff_model(&snap, &e, &[Group::Cats])
            .into_iter()
            // with only one of the two setters called, only what that setter defines is compared
            .filter(|d| match c.setters {
                3 => d.what.contains("categories"),
                5 => d.what.contains("modifier"),
                _ => true,
            })
            .collect();
        if let Some(d) = diffs.first() {
            let all: Vec<String> = diffs.iter().take(6).map(|d| d.what.clone()).collect();
            let kind: String = d.what.split(' ').next().unwrap_or("").chars().take(24).collect();
            return fail(format!("classification/{pn}/{kind}"), format!("{} difference(s) to the reference model: {}", diffs.len(), all.join(" | ")));
        }
        let mods = model.default_modifier().unwrap_or_default();
        let cats = model.default_categories().unwrap_or_default();
        if !mods.is_empty() && model.ids.iter().any(|id| model.categories_with(*id, &cats).len() >= 2) {
            let mut h = Fnv::new();
            h.u64(exp.canonical_hash());
            h.bytes(pn.as_bytes());
            stats.nontrivial(h.finish());
        }
        return Ok(());
    }
    let pn = oc.path.name();
    if c.drop_roots != 0 {
        // building with defaults must fail with an error
        stats.label("missing-root");
        return match build_path(&oc.facts, oc.path, &oc.noise) {
            Err(e) if e.starts_with("PANIC") => fail(format!("missing-root/panic/{pn}"), format!("building without a root term panics instead of returning an error: {e}")),
            Err(_) => {
                stats.nontrivial(oc.facts.canonical_hash() ^ u64::from(c.drop_roots));
                Ok(())
            }
            Ok(_) => fail(format!("missing-root/accepted/{pn}"), format!("an ontology without {} was built with defaults", if c.drop_roots & 1 != 0 { "HP:0000001" } else { "HP:0000118" })),
        };
    }
    let b = build_case(&oc, stats)?;
    let e = Expect { model: &b.model, defaults: true, term_name: &ident, rec_name: &ident_rec };
    let diffs: Vec<Diff> = diff_model(&b.snap, &e, &[Group::Cats, Group::Problems])
        .into_iter()
        .filter(|d| d.group == Group::Cats || d.what.contains("categories") || d.what.contains("modifier"))
        .collect();
    first_diff_failure(&diffs, "classification", oc.path)?;
    let m = &b.model;
    let mods = m.default_modifier().unwrap_or_default();
    let cats = m.default_categories().unwrap_or_default();
    let mut both = false;
    let mut several = false;
    for id in &m.ids {
        let a = m.anc_self(*id);
        if a.contains(&118) && a.iter().any(|x| mods.contains(x)) {
            both = true;
        }
        if m.categories_with(*id, &cats).len() >= 2 {
            several = true;
        }
    }
    if both {
        stats.label("term-below-modifier-and-phenotype-branch");
    }
    if several {
        stats.label("term-in-several-categories");
    }
    if cats.len() > 30 {
        stats.label("categories>30");
    }
    if !m.anc[m.i(118)].contains(&1) {
        stats.label("118-not-below-1");
    }
    if m.children[m.i(118)].is_empty() {
        stats.label("118-without-children");
    }
    if mods.iter().any(|r| m.children[m.i(*r)].is_empty()) {
        stats.label("childless-top-level-term");
    }
    if several && !mods.is_empty() && !m.children[m.i(118)].is_empty() {
        stats.label("nontrivial");
        let mut h = Fnv::new();
        h.u64(b.expected.canonical_hash());
        h.bytes(pn.as_bytes());
        stats.nontrivial(h.finish());
        stats.sample(|| json!({"path": pn, "edges": b.expected.edges, "modifier_roots": mods, "categories": cats,
            "per_term": m.ids.iter().map(|i| (i.to_string(), json!({"is_modifier": m.is_modifier_with(*i, &mods), "categories": m.categories_with(*i, &cats)}))).collect::<std::collections::BTreeMap<_,_>>()}));
    }
    Ok(())
}

fn strategy(tier: Tier) -> BoxedStrategy<Case> {
    let max = if tier == Tier::Quick { 40 } else { 80 };
    let cfg = GenCfg::small().terms(2, max).recs(3).standard().with_flags(true).names(NameMode::Plain);
    (
        gen::facts(cfg),
        prop_oneof![
            3 => Just(PathSel::BuilderDefaults),
            1 => Just(PathSel::Bin(1)),
            1 => Just(PathSel::Bin(2)),
            2 => Just(PathSel::Bin(3)),
            1 => Just(PathSel::RoundTrip),
            1 => Just(PathSel::Jax),
            1 => Just(PathSel::JaxT),
        ],
        noise_strategy(),
        prop_oneof![8 => Just(0u8), 1 => Just(1u8), 1 => Just(2u8), 1 => Just(3u8)],
        prop_oneof![5 => Just(0u8), 2 => 1u8..=7],
    )
        .prop_map(|(facts, path, noise, drop_roots, setters)| Case { base: OntCase { facts, path, noise }, drop_roots, setters })
        .boxed()
}

/// An ontology with `n_mod` modifier roots and `n_cat` phenotype categories (more than 255 top-level
/// branches), a child below each, every 7th child below two categories and every 11th below a
/// category and a modifier root.
pub fn wide_facts(n_mod: u32, n_cat: u32) -> Facts {
    let mut f = Facts::default();
    f.version = (2024, 6, 1);
    let t = |f: &mut Facts, id: u32, name: String| f.terms.push(TermFact { id, name, obsolete: false, replacement: None });
    t(&mut f, 1, "All".into());
    t(&mut f, 118, "Phenotypic abnormality".into());
    f.edges.push((118, 1));
    for i in 0..n_mod {
        let root = 200_000 + i * 3;
        t(&mut f, root, format!("m{i}"));
        f.edges.push((root, 1));
        t(&mut f, root + 1, format!("mc{i}"));
        f.edges.push((root + 1, root));
    }
    for i in 0..n_cat {
        // ids below and above the modifier block
        let cat = if i % 2 == 0 { 1000 + i * 3 } else { 5_000_000 + i * 3 };
        t(&mut f, cat, format!("c{i}"));
        f.edges.push((cat, 118));
        t(&mut f, cat + 1, format!("cc{i}"));
        f.edges.push((cat + 1, cat));
        if i % 7 == 3 && i >= 2 {
            let other = if (i - 2) % 2 == 0 { 1000 + (i - 2) * 3 } else { 5_000_000 + (i - 2) * 3 };
            f.edges.push((cat + 1, other));
        }
        if i % 11 == 5 && n_mod > 0 {
            f.edges.push((cat + 1, 200_000 + (i % n_mod) * 3));
        }
    }
    f
}

impl Property for C19 {
    fn id(&self) -> &'static str {
        "C19"
    }
    fn rule(&self) -> String {
        "Generated: ontologies containing HP:0000001 and HP:0000118 with 0-5 further top-level branches, HP:0000118 usually (not always) below HP:0000001, childless top-level terms, terms below several categories and below both a modifier and a phenotype branch, detached terms; built with defaults through the Builder, own v1/v2/v3 bytes, as_bytes round trip and JAX files, or built minimally and classified by the public setters set_default_categories / set_default_modifier called in either order, alone, repeatedly, or after both groups were customised through modifier_mut() / categories_mut() and every term was classified under the customised groups; variants with one or both root terms removed. Oracle: modifier() = children(HP:1) without HP:118; categories() = that plus children(HP:118), ascending; per term is_modifier <=> the term or an ancestor is a modifier root; categories() = category terms among the term and its ancestors in ascending id order; building fails with an error (not a panic, not an ontology) iff a root term is missing. evaluations = ontologies classified. Non-trivial = some term lies in >=2 categories, there is >=1 modifier root and HP:118 has children (or: a missing-root variant); distinct = hash(facts, path).".into()
    }
    fn assumptions(&self) -> Vec<String> {
        vec!["classification is defined on the facts: ancestors by BFS closure, roots by the documented rule of set_default_categories / set_default_modifier".into()]
    }
    fn cases(&self, tier: Tier) -> u64 {
        match tier {
            Tier::Quick => 80_000,
            Tier::Thorough => 1_200_000,
        }
    }
    fn required_labels(&self, _tier: Tier) -> Vec<&'static str> {
        vec!["nontrivial", "categories>30", "missing-root", "term-below-modifier-and-phenotype-branch", "term-in-several-categories", "118-not-below-1", "118-without-children", "childless-top-level-term", "public-setters-after-build_minimal", "categories>255", "bulk>65535-terms"]
    }
    fn run_generated(&self, tier: Tier, seed: u64, n: u64, stats: &mut Stats) -> Option<(Value, Failure)> {
        run_typed(strategy(tier), seed, n, stats, check)
    }
    fn replay(&self, case: &Value, stats: &mut Stats) -> Result<CheckResult, String> {
        if let Some(w) = case.get("wide") {
            let v: (u32, u32, PathSel, u8) = serde_json::from_value(w.clone()).map_err(|e| e.to_string())?;
            stats.cases += 1;
            let c = Case { base: OntCase { facts: wide_facts(v.0, v.1), path: v.2, noise: Default::default() }, drop_roots: 0, setters: v.3 };
            let r = check(&c, stats);
            if r.is_ok() && v.0.max(v.1) > 255 {
                stats.label("categories>255");
            }
            return Ok(r);
        }
        if let Some(b) = case.get("bulk") {
            // more terms than a 16-bit index addresses (see `bulk_facts`): every term classified
            let v: (u32, u32, PathSel, u8) = serde_json::from_value(b.clone()).map_err(|e| e.to_string())?;
            stats.cases += 1;
            let c = Case { base: OntCase { facts: super::common::bulk_facts(v.0, v.1, 4), path: v.2, noise: Default::default() }, drop_roots: 0, setters: v.3 };
            let r = check(&c, stats);
            if r.is_ok() {
                stats.label("bulk>65535-terms");
            }
            return Ok(r);
        }
        replay_typed::<Case, _>(case, stats, check)
    }
    fn isolated_plans(&self, tier: Tier, _seed: u64) -> Vec<Value> {
        let mut out = vec![json!({"wide": (300u32, 260u32, PathSel::BuilderDefaults, 0u8)}), json!({"wide": (256u32, 1500u32, PathSel::Bin(3), 0u8)}), json!({"bulk": (65_900u32, 7919u32, PathSel::Bin(3), 0u8)})];
        if tier == Tier::Thorough {
            out.push(json!({"wide": (4000u32, 300u32, PathSel::Builder, 2u8)}));
            out.push(json!({"wide": (300u32, 300u32, PathSel::Jax, 0u8)}));
        }
        out
    }
}
