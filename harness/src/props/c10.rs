//! C10 — lookups are exact for every possible id and every name.

use super::common::{build_path, expected_facts, PathSel};
use crate::build::{via_builder_with_failing_calls, Finish, JaxNoise};
use crate::gen::{self, pick, GenCfg, NameMode, ID_SPACE};
use crate::model::*;
use crate::observe::*;
use crate::runner::*;
use crate::ensure;
use hpo::annotations::{AnnotationId, Disease, GeneId, OmimDiseaseId, OrphaDiseaseId};
use proptest::collection::vec;
use proptest::prelude::*;
use serde::{Deserialize, Serialize};
use serde_json::{json, Value};
use std::collections::BTreeSet;

pub struct C10;

#[derive(Clone, Debug, Serialize, Deserialize, PartialEq)]
pub struct Case {
    pub facts: Facts,
    pub path: PathSel,
    /// extra lookup keys
    pub keys: Vec<u32>,
    pub queries: Vec<String>,
    /// sweep the whole id space (and 2^20 larger values) on this case
    pub sweep: bool,
}

pub fn check(c: &Case, stats: &mut Stats) -> CheckResult {
    let mut exp = expected_facts(&c.facts, c.path);
    // calls may spell the name of a record differently (also as the empty string): the record keeps the name of
    // the first call that mentions it
    if matches!(c.path, PathSel::Builder | PathSel::BuilderDefaults) && c.facts.ann_calls.iter().any(|a| a.alt_name.is_some()) {
        for k in 0..3 {
            for r in exp.recs[k].iter_mut() {
                if let Some(first) = c.facts.ann_calls.iter().find(|a| a.kind as usize == k && a.rec == r.id) {
                    if let Some(n) = &first.alt_name {
                        if n.is_empty() && !r.name.is_empty() {
                            stats.label("record-first-named-by-the-empty-string");
                        }
                        r.name = n.clone();
                    }
                }
            }
        }
    }
    // (half of the Builder cases interleave calls that fail and are ignored by the caller)
    let with_failing_calls = c.path == PathSel::Builder && c.keys.len() % 2 == 1;
    let built = if with_failing_calls { via_builder_with_failing_calls(&c.facts, Finish::Minimal) } else { build_path(&c.facts, c.path, &JaxNoise::default()) };
    let ont = match built {
        Ok(o) => o,
        Err(e) => return fail(format!("construct/{}", c.path.name()), e),
    };
    if with_failing_calls {
        stats.label("builder-with-ignored-failing-calls");
    }
    let m = Model::new(&exp);
    let pn = c.path.name();
    // --- iteration and len
    let snap = guarded(|| observe(&ont)).map_err(|p| Failure { signature: "observe-panic".into(), message: p })?;
    for p in &snap.problems {
        if p.contains("iter") || p.contains("hpos") || p.contains("len") || p.contains("resolve") || p.contains("is_empty") {
            return fail(format!("lookup/{pn}/iteration"), p.clone());
        }
    }
    let it: Vec<u32> = snap.terms.keys().copied().collect();
    ensure!(it == m.ids, format!("lookup/{pn}/iteration"), "iteration yields {it:?}, added ids {:?}", m.ids);
    ensure!(snap.len == m.len(), format!("lookup/{pn}/len"), "len() = {} but {} distinct ids were added", snap.len, m.len());
    // --- id keys
    let mut keys: BTreeSet<u32> = c.keys.iter().copied().collect();
    for id in &m.ids {
        keys.extend([*id, id.wrapping_sub(1), id.wrapping_add(1)]);
        // aliases of a present id under power-of-two masks and decimal moduli
        keys.extend([id.wrapping_add(1 << 24), id.wrapping_add(1 << 16), id.wrapping_add(10_000_000), id | (1 << 31), id.wrapping_add(3 << 24)]);
    }
    keys.extend([0, 1, ID_SPACE - 1, ID_SPACE, ID_SPACE + 1, u32::MAX, u32::MAX - 1, 1 << 31]);
    for k in &keys {
        stats.eval(1);
        let r = guarded(|| ont.hpo(*k).map(|t| (t.id().as_u32(), t.name().to_string(), t.is_obsolete(), t.replacement_id().map(|r| r.as_u32()))));
        let r = match r {
            Ok(r) => r,
            Err(p) => return fail(format!("lookup/{pn}/hpo-panic"), format!("hpo({k}) panicked: {p}")),
        };
        match (r, m.idx.get(k)) {
            (None, None) => {}
            (Some((id, name, obs, repl)), Some(i)) => {
                ensure!(id == *k, format!("lookup/{pn}/hpo-wrong-term"), "hpo({k}) returned term {id}");
                ensure!(
                    name == m.names[*i] && obs == m.obsolete[*i] && repl == m.replacement[*i],
                    format!("lookup/{pn}/hpo-wrong-data"),
                    "hpo({k}) carries ({name:?},{obs},{repl:?}), added with ({:?},{},{:?})",
                    m.names[*i],
                    m.obsolete[*i],
                    m.replacement[*i]
                );
            }
            (Some((id, ..)), None) => return fail(format!("lookup/{pn}/hpo-phantom"), format!("hpo({k}) returned term {id} but {k} was never added; ids {:?}", m.ids)),
            (None, Some(_)) => return fail(format!("lookup/{pn}/hpo-missing"), format!("hpo({k}) is None but the term was added; ids {:?}", m.ids)),
        }
        // the fallible constructor is the same lookup
        match guarded(|| hpo::HpoTerm::try_new(&ont, *k).map(|t| (t.id().as_u32(), t.name().to_string())).ok()) {
            Ok(t) => {
                let want = m.idx.get(k).map(|i| (*k, m.names[*i].clone()));
                ensure!(t == want, format!("lookup/{pn}/try_new"), "HpoTerm::try_new({k}) = {t:?}, expected {want:?}");
            }
            Err(p) => return fail(format!("lookup/{pn}/try_new-panic"), format!("HpoTerm::try_new({k}) panicked: {p}")),
        }
    }
    // --- full sweep
    if c.sweep {
        stats.label("full-sweep");
        let r = guarded(|| -> CheckResult {
            let mut next = 0usize;
            for id in 0..ID_SPACE {
                let present = next < m.ids.len() && m.ids[next] == id;
                if present {
                    next += 1;
                }
                let got = ont.hpo(id);
                match got {
                    Some(t) if present && t.id().as_u32() == id => {}
                    None if !present => {}
                    other => return fail(format!("lookup/{pn}/sweep"), format!("hpo({id}) = {:?}, present={present}", other.map(|t| t.id().as_u32()))),
                }
            }
            let mut x: u64 = 0x9E3779B97F4A7C15 ^ (m.len() as u64) ^ (c.keys.first().copied().unwrap_or(7) as u64);
            for _ in 0..(1 << 20) {
                x = x.wrapping_mul(6364136223846793005).wrapping_add(1442695040888963407);
                let id = ID_SPACE + ((x >> 33) as u32) % (u32::MAX - ID_SPACE);
                if let Some(t) = ont.hpo(id) {
                    return fail(format!("lookup/{pn}/sweep-large"), format!("hpo({id}) returned {}", t.id()));
                }
            }
            Ok(())
        });
        match r {
            Ok(r) => r?,
            Err(p) => return fail(format!("lookup/{pn}/sweep-panic"), p),
        }
        stats.eval(u64::from(ID_SPACE) + (1 << 20));
        stats.count("ids_swept", u64::from(ID_SPACE) + (1 << 20));
    }
    // --- record lookups by id
    let mut rids: BTreeSet<u32> = BTreeSet::new();
    for k in 0..3 {
        rids.extend(m.direct[k].keys().copied());
    }
    let extra: Vec<u32> = rids.iter().flat_map(|r| [r.wrapping_add(1), r.wrapping_sub(1)]).collect();
    rids.extend(extra);
    rids.extend(c.keys.iter().copied());
    for id in &rids {
        stats.eval(3);
        let got = [
            ont.gene(&GeneId::from(*id)).map(|g| (g.id().as_u32(), g.name().to_string())),
            ont.omim_disease(&OmimDiseaseId::from(*id)).map(|g| (g.id().as_u32(), g.name().to_string())),
            ont.orpha_disease(&OrphaDiseaseId::from(*id)).map(|g| (g.id().as_u32(), g.name().to_string())),
        ];
        for k in 0..3 {
            let want = m.direct[k].get(id).map(|(n, _)| (*id, n.clone()));
            ensure!(
                got[k] == want,
                format!("lookup/{pn}/{}-by-id", KIND_NAMES[k]),
                "{}({id}) = {:?}, expected {:?}",
                KIND_NAMES[k],
                got[k],
                want
            );
        }
    }
    // --- names
    let mut queries: BTreeSet<String> = c.queries.iter().cloned().collect();
    for (n, _) in m.direct[GENE].values() {
        queries.insert(n.clone());
    }
    for (n, _) in m.direct[OMIM].values() {
        queries.insert(n.clone());
        // substrings on char boundaries
        let chars: Vec<(usize, char)> = n.char_indices().collect();
        if chars.len() >= 2 {
            queries.insert(n[chars[1].0..].to_string());
            queries.insert(n[..chars[chars.len() - 1].0].to_string());
        }
    }
    queries.insert(String::new());
    let mut dup_names = false;
    for q in &queries {
        stats.eval(3);
        let named: Vec<u32> = m.direct[GENE].iter().filter(|(_, (n, _))| n == q).map(|(i, _)| *i).collect();
        if named.len() > 1 {
            dup_names = true;
        }
        match ont.gene_by_name(q) {
            Some(g) => ensure!(
                g.name() == q && named.contains(&g.id().as_u32()),
                format!("lookup/{pn}/gene_by_name"),
                "gene_by_name({q:?}) returned gene {} named {:?}; genes with that name: {named:?}",
                g.id(),
                g.name()
            ),
            None => ensure!(named.is_empty(), format!("lookup/{pn}/gene_by_name"), "gene_by_name({q:?}) is None but genes {named:?} have that name"),
        }
        let want: BTreeSet<u32> = m.direct[OMIM].iter().filter(|(_, (n, _))| n.contains(q.as_str())).map(|(i, _)| *i).collect();
        let got_v: Vec<u32> = ont.omim_diseases_by_name(q).map(|d| d.id().as_u32()).collect();
        let got: BTreeSet<u32> = got_v.iter().copied().collect();
        ensure!(
            got == want && got.len() == got_v.len(),
            format!("lookup/{pn}/omim_diseases_by_name"),
            "omim_diseases_by_name({q:?}) = {got_v:?}, diseases whose name contains it: {want:?}"
        );
        match ont.omim_disease_by_name(q) {
            Some(d) => ensure!(
                want.contains(&d.id().as_u32()),
                format!("lookup/{pn}/omim_disease_by_name"),
                "omim_disease_by_name({q:?}) returned {} ({:?}) which does not contain the query",
                d.id(),
                d.name()
            ),
            None => ensure!(want.is_empty(), format!("lookup/{pn}/omim_disease_by_name"), "omim_disease_by_name({q:?}) is None, matching: {want:?}"),
        }
        if want.len() > 1 && want.len() < m.direct[OMIM].len() {
            stats.label("query-matches-several-not-all");
        }
    }
    if dup_names {
        stats.label("duplicate-gene-names");
    }
    if c.facts.terms.len() != m.len() {
        stats.label("duplicate-new_term");
    }
    stats.count(&format!("path:{pn}"), 1);
    for l in gen::labels(&exp, &m) {
        if l == "id0" || l == "id9999999" || l == "sparse-ids" {
            stats.label(l);
        }
    }
    let adjacent = m.ids.windows(2).any(|w| w[1] - w[0] == 1);
    if adjacent {
        stats.label("adjacent-ids");
    }
    if m.has(0) || m.has(ID_SPACE - 1) || adjacent {
        stats.label("nontrivial");
        let mut h = Fnv::new();
        h.u64(exp.canonical_hash());
        h.u64(hash_json(&c.queries));
        h.bytes(pn.as_bytes());
        stats.nontrivial(h.finish());
        stats.sample(|| json!({"path": pn, "ids": m.ids, "keys_checked": keys.len(), "queries": queries.iter().take(8).collect::<Vec<_>>(), "omim_names": m.direct[OMIM].values().map(|x| x.0.clone()).collect::<Vec<_>>()}));
    }
    Ok(())
}

/// A large ontology (more terms than any 16-bit index can address): `n` parentless
/// terms with ids offset + i*stride, every id of the id space looked up.
pub fn check_bulk(n: u32, stride: u32, offset: u32, stats: &mut Stats) -> CheckResult {
    use hpo::builder::Builder;
    ensure!(n > 0 && stride > 0 && u64::from(offset) + u64::from(n - 1) * u64::from(stride) < u64::from(ID_SPACE), "harness/bad-case", "bulk ids must stay below 10^7");
    let ont = guarded(|| {
        let mut b = Builder::new();
        // inserted in descending id order so that slot order and id order differ
        for i in (0..n).rev() {
            let id = offset + i * stride;
            b.new_term(&format!("t{id}"), id);
        }
        b.terms_complete().connect_all_terms().calculate_information_content().map(|b| b.build_minimal())
    });
    let ont = match ont {
        Ok(Ok(o)) => o,
        Ok(Err(e)) => return fail("lookup/bulk/construct", format!("building {n} terms failed: {e}")),
        Err(p) => return fail("lookup/bulk/construct-panic", format!("building {n} terms panicked: {p}")),
    };
    ensure!(ont.len() == n as usize, "lookup/bulk/len", "len() = {} after adding {n} distinct terms", ont.len());
    let r = guarded(|| -> CheckResult {
        let mut count = 0u32;
        let mut seen = std::collections::HashSet::new();
        for t in &ont {
            let id = t.id().as_u32();
            ensure!(id >= offset && (id - offset) % stride == 0 && (id - offset) / stride < n && seen.insert(id), "lookup/bulk/iteration", "iteration yields {id} (not added, or twice)");
            count += 1;
        }
        ensure!(count == n, "lookup/bulk/iteration", "iteration yields {count} terms, {n} were added");
        for id in 0..ID_SPACE {
            let present = id >= offset && (id - offset) % stride == 0 && (id - offset) / stride < n;
            match ont.hpo(id) {
                Some(t) if present => {
                    ensure!(t.id().as_u32() == id, "lookup/bulk/wrong-term", "hpo({id}) returned term {} ({n} terms in the ontology)", t.id());
                    if id % 97 == 0 {
                        ensure!(t.name() == format!("t{id}"), "lookup/bulk/wrong-data", "hpo({id}) carries name {:?}", t.name());
                    }
                }
                None if !present => {}
                Some(t) => return fail("lookup/bulk/phantom", format!("hpo({id}) returned {} but {id} was never added", t.id())),
                None => return fail("lookup/bulk/missing", format!("hpo({id}) is None but the term was added (insertion number {} of {n})", n - (id - offset) / stride)),
            }
        }
        Ok(())
    });
    match r {
        Ok(r) => r?,
        Err(p) => return fail("lookup/bulk/panic", p),
    }
    stats.eval(u64::from(ID_SPACE));
    stats.count("ids_swept", u64::from(ID_SPACE));
    stats.count("bulk_terms", u64::from(n));
    stats.label("bulk>65535-terms");
    stats.nontrivial(hash_json(&(n, stride, offset)));
    Ok(())
}

fn short_name() -> impl Strategy<Value = String> {
    prop_oneof![
        4 => "[ab ]{0,4}",
        1 => "[ab]{0,2}é[ab]{0,2}",
        1 => Just("€".to_string()),
        1 => "[A-Z]{1,4}[0-9]{0,2}",
    ]
}

fn strategy(tier: Tier) -> BoxedStrategy<Case> {
    let max = if tier == Tier::Quick { 20 } else { 60 };
    let sweep_w = if tier == Tier::Quick { 0.002 } else { 0.01 };
    let mut free = GenCfg::small().terms(0, max).recs(6);
    free.dup_terms = true;
    let mut std_cfg = GenCfg::small().terms(2, max).recs(6).standard().with_flags(true).names(NameMode::Capped);
    std_cfg.dup_terms = true;
    let facts = prop_oneof![
        3 => gen::facts(free).prop_map(|f| (f, PathSel::Builder)),
        2 => (gen::facts(std_cfg), prop_oneof![3 => Just(PathSel::Bin(3)), 1 => Just(PathSel::Bin(2)), 2 => Just(PathSel::Bin(1)), 1 => Just(PathSel::Jax), 1 => Just(PathSel::JaxT), 1 => Just(PathSel::RoundTrip)]).prop_map(|(f, p)| (f, p)),
    ];
    (
        facts,
        vec(short_name(), 0..8),
        vec(prop_oneof![3 => short_name(), 1 => "\\PC{0,5}"], 0..8),
        vec(prop_oneof![2 => any::<u32>(), 1 => 0u32..ID_SPACE, 1 => (ID_SPACE - 3)..(ID_SPACE + 3)], 0..8),
        vec(any::<u16>(), 0..4),
        proptest::bool::weighted(sweep_w),
    )
        .prop_map(|((mut facts, path), names, mut queries, keys, subs, sweep)| {
            // short record names from a tiny alphabet: duplicates and substrings of one another
            if !names.is_empty() {
                let mut i = 0;
                for k in 0..3 {
                    for r in facts.recs[k].iter_mut() {
                        if i % 3 != 2 {
                            r.name = names[i % names.len()].clone();
                        }
                        i += 1;
                    }
                }
            }
            for s in subs {
                let all: Vec<&String> = facts.recs[OMIM].iter().map(|r| &r.name).collect();
                if !all.is_empty() {
                    let n = all[pick(s, all.len())];
                    let chars: Vec<usize> = n.char_indices().map(|x| x.0).chain([n.len()]).collect();
                    let a = pick(s.wrapping_mul(31), chars.len());
                    let b = pick(s.wrapping_mul(77), chars.len());
                    queries.push(n[chars[a.min(b)]..chars[a.max(b)]].to_string());
                }
            }
            // Builder path: some calls spell the record name differently; in particular the first call for a record
            // may carry the empty string and a later one the name
            if path == PathSel::Builder && keys.len() % 3 == 0 {
                let base: Vec<String> = facts.ann_calls.iter().map(|a| facts.rec_name(a.kind as usize, a.rec).to_string()).collect();
                let mut seen = BTreeSet::new();
                for (i, a) in facts.ann_calls.iter_mut().enumerate() {
                    let first = seen.insert((a.kind, a.rec));
                    let sel = (i + keys.len() + queries.len()) % 4;
                    a.alt_name = match (first, sel) {
                        (true, 0) => Some(String::new()),
                        (false, 1) => Some(format!("{} (later spelling)", base[i])),
                        (true, 2) => Some(format!("{}x", base[i])),
                        _ => None,
                    };
                }
            }
            Case { facts, path, keys, queries, sweep }
        })
        .boxed()
}

impl Property for C10 {
    fn id(&self) -> &'static str {
        "C10"
    }
    fn rule(&self) -> String {
        "Generated: ontologies with dense / sparse / border id sets (0, 1, 9_999_999), duplicated new_term calls (first wins), 0-6 records per kind with short names from a tiny alphabet (duplicates, names that are substrings of one another, multi-byte), built through the Builder (free-form; calls may spell a record's name differently, the first call - possibly with the empty string - names it), own v1 / v2 / v3 bytes (flags, replacements), the as_bytes round trip or rendered JAX files. Keys: every present id, present±1, {0,1,9_999_999,10^7,10^7+1,2^31,u32::MAX}, generated u32. A generated fraction of cases sweeps ALL 10^7 ids plus 2^20 pseudo-random larger values. Deterministic sub-sweep: ontologies with 65_536 and 70_000 (thorough also 131_073 and 200_000) terms, inserted in descending id order, every id of the id space looked up. Oracle: hpo(k) is Some iff k was added, and carries id/name/flags of the first addition; iter/hpos/&ont yield every id once and agree with len; gene/omim/orpha lookups by id exact per kind; gene_by_name exact match or None iff none; omim_diseases_by_name = exactly the diseases whose name contains the query (queries: names, substrings on char boundaries, '', absent strings); omim_disease_by_name one of them or None iff none. evaluations = keys + swept ids + queries. Non-trivial = id set contains 0 or 9_999_999 or two adjacent ids; distinct by hash(facts, queries, path).".into()
    }
    fn assumptions(&self) -> Vec<String> {
        vec![
            "ids >= 10^7 cannot be added (arena size) and are used as lookup keys only".into(),
            "for duplicate term ids the first supplied name wins (Arena::insert ignores later duplicates)".into(),
        ]
    }
    fn cases(&self, tier: Tier) -> u64 {
        match tier {
            Tier::Quick => 100_000,
            Tier::Thorough => 600_000,
        }
    }
    fn required_labels(&self, _tier: Tier) -> Vec<&'static str> {
        vec!["nontrivial", "bulk>65535-terms", "full-sweep", "id0", "id9999999", "adjacent-ids", "duplicate-new_term", "duplicate-gene-names", "query-matches-several-not-all", "builder-with-ignored-failing-calls", "record-first-named-by-the-empty-string"]
    }
    fn run_generated(&self, tier: Tier, seed: u64, n: u64, stats: &mut Stats) -> Option<(Value, Failure)> {
        run_typed(strategy(tier), seed, n, stats, check)
    }
    fn replay(&self, case: &Value, stats: &mut Stats) -> Result<CheckResult, String> {
        if let Some(b) = case.get("bulk").and_then(|b| b.as_array()) {
            let v: Vec<u32> = b.iter().filter_map(|x| x.as_u64().map(|x| x as u32)).collect();
            if v.len() == 3 {
                stats.cases += 1;
                return Ok(check_bulk(v[0], v[1], v[2], stats));
            }
        }
        replay_typed::<Case, _>(case, stats, check)
    }
    fn isolated_plans(&self, tier: Tier, seed: u64) -> Vec<Value> {
        // large ontologies: more terms than a 16-bit slot index can address
        let mut plans: Vec<(u32, u32, u32)> = vec![(70_000, 137, (seed % 100) as u32), (65_536, 1, 1 + (seed % 1000) as u32)];
        if tier == Tier::Thorough {
            plans.push((200_000, 49, 3));
            plans.push((131_073, 76, 0));
        }
        plans.into_iter().map(|(n, s, o)| json!({"bulk": [n, s, o]})).collect()
    }
}
