pub mod common;
pub mod c01;

use crate::runner::Property;

pub fn all() -> Vec<Box<dyn Property>> {
    vec![Box::new(c01::C01)]
}
