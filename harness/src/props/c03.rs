//! C03 — information content = -ln(n/N) per kind.

use super::common::*;
use crate::ensure;
use crate::gen;
use crate::model::*;
use crate::observe::*;
use crate::runner::*;
use serde_json::{json, Value};
use std::collections::BTreeSet;

pub struct C03;

pub fn check(c: &OntCase, stats: &mut Stats) -> CheckResult {
    let b = build_case(c, stats)?;
    let e = Expect {
        model: &b.model,
        defaults: c.path.defaults(),
        term_name: &ident,
        rec_name: &ident_rec,
    };
    let diffs = diff_model(&b.snap, &e, &[Group::Ic, Group::Problems]);
    let diffs: Vec<Diff> = diffs
        .into_iter()
        .filter(|d| d.group == Group::Ic || d.what.contains("get_kind"))
        .collect();
    first_diff_failure(&diffs, "ic", c.path)?;
    let m = &b.model;
    stats.eval((m.len() * 3) as u64);
    for l in gen::labels(&b.expected, m) {
        stats.label(l);
    }
    let totals: BTreeSet<usize> = (0..3).map(|k| m.direct[k].len()).collect();
    let partial = (0..3).any(|k| {
        let n = m.direct[k].len();
        m.inh[k].iter().any(|s| !s.is_empty() && s.len() < n)
    });
    if (0..3).any(|k| m.direct[k].is_empty()) {
        stats.label("kind-with-zero-records");
    }
    if (0..3).any(|k| !m.direct[k].is_empty() && m.inh[k].iter().any(|s| s.len() == m.direct[k].len())) {
        stats.label("term-linked-to-all-records");
    }
    if totals.len() == 3 && partial {
        stats.label("nontrivial");
        let mut h = Fnv::new();
        h.u64(b.expected.canonical_hash());
        h.bytes(c.path.name().as_bytes());
        stats.nontrivial(h.finish());
        stats.sample(|| {
            json!({"path": c.path.name(), "N": [m.direct[0].len(), m.direct[1].len(), m.direct[2].len()],
                   "n_and_ic": m.ids.iter().map(|i| (i.to_string(),
                        (0..3).map(|k| json!([m.inh[k][m.i(*i)].len(), b.snap.terms[i].ic(k)])).collect::<Vec<_>>())).collect::<std::collections::BTreeMap<_,_>>()})
        });
    }
    Ok(())
}

/// Border values of n and N for the direct check of the public `InformationContent` setters.
fn border_counts() -> Vec<usize> {
    let mut v: Vec<usize> = vec![0, 1, 2, 3, 4, 5, 7, 8, 9, 10, 15, 16, 17, 29, 30, 31, 32, 33, 63, 64, 65, 100, 127, 128, 129, 169, 170, 171, 254, 255, 256, 257, 511, 512, 513, 999, 1000, 1023, 1024, 4095, 4096, 9999, 10_000, 16_383, 16_384, 32_767, 32_768, 32_769, 40_000, 50_000, 65_534, 65_535];
    v.extend((1..=16).map(|k| k * 4001));
    v.sort_unstable();
    v.dedup();
    v
}

/// `InformationContent::set_*(total, current)` is the formula itself: checked on a grid of border
/// values for all three kinds; beyond the documented u16 limit an error (never a wrong value) is accepted.
pub fn check_setters(stats: &mut Stats) -> CheckResult {
    use hpo::term::{InformationContent, InformationContentKind};
    let b = border_counts();
    let kinds = [InformationContentKind::Gene, InformationContentKind::Omim, InformationContentKind::Orpha];
    for total in b.iter().copied().chain([65_536usize, 65_537, 100_000, 1 << 24, u32::MAX as usize]) {
        let mut prev: Option<(usize, f32)> = None;
        for current in b.iter().copied().chain([65_536usize, 100_000]) {
            if current > total {
                continue;
            }
            for k in 0..3 {
                stats.eval(1);
                let r = guarded(|| {
                    let mut ic = InformationContent::default();
                    let r = match k {
                        0 => ic.set_gene(total, current),
                        1 => ic.set_omim_disease(total, current),
                        _ => ic.set_orpha_disease(total, current),
                    };
                    (r.is_ok(), [ic.gene(), ic.omim_disease(), ic.orpha_disease()], ic.get_kind(&kinds[k]))
                });
                let (ok, vals, by_kind) = match r {
                    Ok(x) => x,
                    Err(p) => return fail("ic/setter/panic", format!("InformationContent::set_{}({total},{current}) panicked: {p}", KIND_NAMES[k])),
                };
                let within_limit = total <= 65_535 || current == 0;
                if !ok {
                    ensure!(!within_limit, "ic/setter/error-within-limit", "set_{}({total},{current}) returned an error below the documented limit of 65535", KIND_NAMES[k]);
                    continue;
                }
                let want = ic_of(current, total);
                let x = vals[k];
                ensure!(x.is_finite() && x >= 0.0, "ic/setter/range", "set_{}({total},{current}) gives {x}", KIND_NAMES[k]);
                ensure!(close_f32(x, want, 1e-5), "ic/setter/value", "set_{}({total},{current}) gives {x}, -ln(n/N) = {want}", KIND_NAMES[k]);
                ensure!((x == 0.0) == (current == 0 || total == 0 || current == total), "ic/setter/zero", "set_{}({total},{current}) gives {x}: must be 0 exactly when n=0, N=0 or n=N", KIND_NAMES[k]);
                ensure!(by_kind.to_bits() == x.to_bits(), "ic/setter/get_kind", "get_kind differs from the accessor after set_{}({total},{current})", KIND_NAMES[k]);
                for o in 0..3 {
                    ensure!(o == k || vals[o] == 0.0, "ic/setter/other-kind-touched", "set_{}({total},{current}) changed the {} value to {}", KIND_NAMES[k], KIND_NAMES[o], vals[o]);
                }
                if k == 0 {
                    if let Some((pc, px)) = prev {
                        ensure!(pc == 0 || x <= px, "ic/setter/not-monotone", "N={total}: IC({pc}) = {px} < IC({current}) = {x}");
                    }
                    prev = Some((current, x));
                }
            }
        }
    }
    stats.label("setter-grid");
    Ok(())
}

/// Large record counts: N_gene = `ng` (up to the documented limit 65535), N_omim, N_orpha differ; a chain
/// 1 <- 118 <- 10 <- 11 <- 12 plus a side branch 118 <- 20, records spread over the terms by residue.
pub fn check_large(ng: u32, no: u32, nr: u32, path: PathSel, stats: &mut Stats) -> CheckResult {
    let f = large_record_facts(ng, no, nr);
    let c = OntCase { facts: f, path, noise: Default::default() };
    let b = build_case(&c, stats)?;
    let m = &b.model;
    for id in &m.ids {
        for k in 0..3 {
            stats.eval(1);
            let x = b.snap.terms[id].ic(k);
            let n = m.inh[k][m.i(*id)].len();
            let total = m.direct[k].len();
            let want = ic_of(n, total);
            ensure!(x.is_finite() && x >= 0.0 && close_f32(x, want, 1e-5) && (x == 0.0) == (n == 0 || n == total), format!("ic/large/{}", c.path.name()), "N=({ng},{no},{nr}) ic {} of {id}: {x}, -ln({n}/{total}) = {want}", KIND_NAMES[k]);
        }
    }
    stats.label("records>32767");
    if ng == 65_535 {
        stats.label("records=65535");
    }
    Ok(())
}

impl Property for C03 {
    fn id(&self) -> &'static str {
        "C03"
    }
    fn rule(&self) -> String {
        "Generated: C02 facts (0-10 records per kind, totals biased to differ, kinds with zero records, records without terms, terms linked to all records), every construction path. Oracle: IC_k(t) compared with -ln(n/N) computed in f64 from the model's inherited sets (relative tolerance 1e-5 for the f32 result); exactly 0 when n=0 or N=0; finite and >=0 exactly; for every ancestor/descendant pair that both carry the kind IC(desc) >= IC(anc) exactly; get_kind equals the three accessors. Deterministic sub-sweeps (both tiers): the public setters InformationContent::set_gene/set_omim_disease/set_orpha_disease on a grid of border values of (N, n) up to 65535 and beyond (beyond the documented u16 limit an error is accepted, a wrong value or a panic is not; exact zero iff n=0, N=0 or n=N; monotone in n; other kinds untouched), and ontologies with up to 65535 records per kind through the Builder and the binary loader. evaluations = term-kind values compared. Non-trivial = the three totals N are pairwise different and some term has 0<n<N; distinct = hash(canonical facts, path).".into()
    }
    fn assumptions(&self) -> Vec<String> {
        vec![
            "f32 result compared with f64 reference within 1e-5 relative; range and monotonicity exact".into(),
            "<= 65535 records per kind (documented u16 limit)".into(),
        ]
    }
    fn cases(&self, tier: Tier) -> u64 {
        match tier {
            Tier::Quick => 90_000,
            Tier::Thorough => 800_000,
        }
    }
    fn required_labels(&self, _tier: Tier) -> Vec<&'static str> {
        vec!["nontrivial", "ancestors>30", "parents>30", "records>255", "kind-with-zero-records", "term-linked-to-all-records", "rec-without-terms", "setter-grid", "records>32767", "records=65535", "depth>255", "bulk>65535-terms", "direct-parents>255"]
    }
    fn run_generated(&self, tier: Tier, seed: u64, n: u64, stats: &mut Stats) -> Option<(Value, Failure)> {
        let max = if tier == Tier::Quick { 44 } else { 90 };
        run_typed(ont_case_strategy(max, 10, false), seed, n, stats, check)
    }
    fn replay(&self, case: &Value, stats: &mut Stats) -> Result<CheckResult, String> {
        if case.get("setter_grid").is_some() {
            stats.cases += 1;
            return Ok(check_setters(stats));
        }
        if let Some(l) = case.get("large") {
            let v: (u32, u32, u32, PathSel) = serde_json::from_value(l.clone()).map_err(|e| e.to_string())?;
            stats.cases += 1;
            return Ok(check_large(v.0, v.1, v.2, v.3, stats));
        }
        if let Some(b) = case.get("bulk") {
            // more than 65 535 terms with records of every kind (see `bulk_facts`), through the ordinary check
            let v: (u32, u32, u32, PathSel) = serde_json::from_value(b.clone()).map_err(|e| e.to_string())?;
            stats.cases += 1;
            let c = OntCase { facts: bulk_facts(v.0, v.1, v.2), path: v.3, noise: Default::default() };
            let r = check(&c, stats);
            if r.is_ok() {
                stats.label("bulk>65535-terms");
            }
            return Ok(r);
        }
        if let Some(b) = case.get("deep") {
            let v: (u32, u32, u32, PathSel) = serde_json::from_value(b.clone()).map_err(|e| e.to_string())?;
            stats.cases += 1;
            let c = OntCase { facts: deep_facts(v.0, v.1, v.2), path: v.3, noise: Default::default() };
            let r = check(&c, stats);
            if r.is_ok() {
                stats.label("depth>255");
            }
            return Ok(r);
        }
        if let Some(b) = case.get("fanin") {
            let v: (u32, u32, u32, PathSel) = serde_json::from_value(b.clone()).map_err(|e| e.to_string())?;
            stats.cases += 1;
            let c = OntCase { facts: super::common::fanin_facts(v.0, v.1, v.2), path: v.3, noise: Default::default() };
            let r = check(&c, stats);
            if r.is_ok() {
                stats.label("direct-parents>255");
            }
            return Ok(r);
        }
        replay_typed::<OntCase, _>(case, stats, check)
    }
    fn extra(&self, _tier: Tier, _seed: u64, stats: &mut Stats) -> Vec<(Value, Failure)> {
        let mut out = Vec::new();
        stats.cases += 1;
        if let Err(f) = check_setters(stats) {
            out.push((json!({"setter_grid": true}), f));
        }
        out
    }
    fn isolated_plans(&self, tier: Tier, seed: u64) -> Vec<Value> {
        // record counts up to the documented limit, through the Builder and the binary loader
        let vary = (seed % 997) as u32;
        let mut plans = vec![(65_535u32, 40_000 + vary, 300u32, PathSel::Builder), (33_000 + vary, 65_535, 32_768, PathSel::Bin(3))];
        if tier == Tier::Thorough {
            plans.push((65_535, 65_535, 65_534, PathSel::RoundTrip));
            plans.push((50_000 + vary, 257, 65_535, PathSel::BuilderDefaults));
            plans.push((32_768, 32_767, 32_769, PathSel::Bin(2)));
        }
        let mut out: Vec<Value> = plans.into_iter().map(|p| json!({"large": p})).collect();
        let mult = [7919u32, 104_729][(seed % 2) as usize];
        out.push(json!({"deep": (300u32, mult, 25u32, PathSel::Builder)}));
        out.push(json!({"deep": (260u32, mult, 12u32, PathSel::Bin(3))}));
        out.push(json!({"fanin": (300u32, mult, 25u32, PathSel::Bin(3))}));
        out.push(json!({"bulk": (65_800u32, mult, 50u32, PathSel::Builder)}));
        if tier == Tier::Thorough {
            out.push(json!({"deep": (1100u32, mult, 60u32, PathSel::Bin(3))}));
        }
        out
    }
}
