//! C03 — information content = -ln(n/N) per kind.

use super::common::*;
use crate::gen;
use crate::model::*;
use crate::observe::*;
use crate::runner::*;
use serde_json::{json, Value};
use std::collections::BTreeSet;

pub struct C03;

pub fn check(c: &OntCase, stats: &mut Stats) -> CheckResult {
    let b = build_case(c, stats)?;
    let e = Expect {
        model: &b.model,
        defaults: c.path.defaults(),
        term_name: &ident,
        rec_name: &ident_rec,
    };
    let diffs = diff_model(&b.snap, &e, &[Group::Ic, Group::Problems]);
    let diffs: Vec<Diff> = diffs
        .into_iter()
        .filter(|d| d.group == Group::Ic || d.what.contains("get_kind"))
        .collect();
    first_diff_failure(&diffs, "ic", c.path)?;
    let m = &b.model;
    stats.eval((m.len() * 3) as u64);
    for l in gen::labels(&b.expected, m) {
        stats.label(l);
    }
    let totals: BTreeSet<usize> = (0..3).map(|k| m.direct[k].len()).collect();
    let partial = (0..3).any(|k| {
        let n = m.direct[k].len();
        m.inh[k].iter().any(|s| !s.is_empty() && s.len() < n)
    });
    if (0..3).any(|k| m.direct[k].is_empty()) {
        stats.label("kind-with-zero-records");
    }
    if (0..3).any(|k| !m.direct[k].is_empty() && m.inh[k].iter().any(|s| s.len() == m.direct[k].len())) {
        stats.label("term-linked-to-all-records");
    }
    if totals.len() == 3 && partial {
        stats.label("nontrivial");
        let mut h = Fnv::new();
        h.u64(b.expected.canonical_hash());
        h.bytes(c.path.name().as_bytes());
        stats.nontrivial(h.finish());
        stats.sample(|| {
            json!({"path": c.path.name(), "N": [m.direct[0].len(), m.direct[1].len(), m.direct[2].len()],
                   "n_and_ic": m.ids.iter().map(|i| (i.to_string(),
                        (0..3).map(|k| json!([m.inh[k][m.i(*i)].len(), b.snap.terms[i].ic(k)])).collect::<Vec<_>>())).collect::<std::collections::BTreeMap<_,_>>()})
        });
    }
    Ok(())
}

impl Property for C03 {
    fn id(&self) -> &'static str {
        "C03"
    }
    fn rule(&self) -> String {
        "Generated: C02 facts (0-10 records per kind, totals biased to differ, kinds with zero records, records without terms, terms linked to all records), every construction path. Oracle: IC_k(t) compared with -ln(n/N) computed in f64 from the model's inherited sets (relative tolerance 1e-5 for the f32 result); exactly 0 when n=0 or N=0; finite and >=0 exactly; for every ancestor/descendant pair that both carry the kind IC(desc) >= IC(anc) exactly; get_kind equals the three accessors. evaluations = term-kind values compared. Non-trivial = the three totals N are pairwise different and some term has 0<n<N; distinct = hash(canonical facts, path).".into()
    }
    fn assumptions(&self) -> Vec<String> {
        vec![
            "f32 result compared with f64 reference within 1e-5 relative; range and monotonicity exact".into(),
            "<= 65535 records per kind (documented u16 limit)".into(),
        ]
    }
    fn cases(&self, tier: Tier) -> u64 {
        match tier {
            Tier::Quick => 90_000,
            Tier::Thorough => 800_000,
        }
    }
    fn required_labels(&self, _tier: Tier) -> Vec<&'static str> {
        vec!["nontrivial", "ancestors>30", "parents>30", "records>255", "kind-with-zero-records", "term-linked-to-all-records", "rec-without-terms"]
    }
    fn run_generated(&self, tier: Tier, seed: u64, n: u64, stats: &mut Stats) -> Option<(Value, Failure)> {
        let max = if tier == Tier::Quick { 44 } else { 90 };
        run_typed(ont_case_strategy(max, 10, false), seed, n, stats, check)
    }
    fn replay(&self, case: &Value, stats: &mut Stats) -> Result<CheckResult, String> {
        replay_typed::<OntCase, _>(case, stats, check)
    }
}
