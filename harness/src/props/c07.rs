//! C07 — binary serialisation round-trips every ontology.

use super::common::*;
use crate::build::*;
use crate::gen::{self, GenCfg, NameMode};
use crate::model::*;
use crate::observe::*;
use crate::runner::*;
use crate::ensure;
use hpo::Ontology;
use proptest::prelude::*;
use serde_json::{json, Value};

pub struct C07;

thread_local! {
    static SCRATCH: Scratch = Scratch::new("c07");
}

/// what a snapshot must look like after `as_bytes` -> `from_bytes`:
/// term and gene names are cut to their longest prefix of <= 255 bytes that
/// ends on a char boundary (documented 255 byte limit); disease names are kept.
fn expected_after_roundtrip(s: &Snapshot) -> Snapshot {
    let mut e = s.clone();
    for t in e.terms.values_mut() {
        t.name = char_prefix(&t.name, 255).to_string();
    }
    for g in e.recs[GENE].values_mut() {
        g.name = char_prefix(&g.name, 255).to_string();
    }
    e
}

fn name_class(s: &Snapshot) -> &'static str {
    let cut_inside = |n: &String| n.len() > 255 && !n.is_char_boundary(255);
    if s.terms.values().any(|t| cut_inside(&t.name)) {
        "term-name-multibyte-at-255"
    } else if s.recs[GENE].values().any(|t| cut_inside(&t.name)) {
        "gene-name-multibyte-at-255"
    } else if s.terms.values().any(|t| t.name.len() > 255) || s.recs[GENE].values().any(|t| t.name.len() > 255) {
        "name-over-255"
    } else {
        "names-fit"
    }
}

fn compare_empty(a: &Ontology, b: &Ontology) -> Result<(), String> {
    let c = a.compare(b);
    let n = [
        c.added_hpo_terms().len(),
        c.removed_hpo_terms().len(),
        c.changed_hpo_terms().len(),
        c.added_genes().len(),
        c.removed_genes().len(),
        c.changed_genes().len(),
        c.added_omim_diseases().len(),
        c.removed_omim_diseases().len(),
        c.changed_omim_diseases().len(),
        c.added_orpha_diseases().len(),
        c.removed_orpha_diseases().len(),
        c.changed_orpha_diseases().len(),
    ];
    if n.iter().any(|x| *x != 0) {
        return Err(format!("compare() reports differences [terms +,-,~ | genes | omim | orpha] = {n:?}"));
    }
    Ok(())
}

pub fn check(c: &OntCase, stats: &mut Stats) -> CheckResult {
    let src = match build_path(&c.facts, c.path, &c.noise) {
        Ok(o) => o,
        Err(e) => return fail(format!("construct/{}", c.path.name()), e),
    };
    let pn = c.path.name();
    let s1 = guarded(|| observe(&src)).map_err(|p| Failure { signature: "observe-panic/source".into(), message: p })?;
    let class = name_class(&s1);
    stats.eval(1);
    // serialise
    let bytes = match guarded(|| src.as_bytes()) {
        Ok(b) => b,
        Err(p) => return fail(format!("as_bytes/panic/{class}"), p),
    };
    let o2 = match decode(&bytes) {
        Decoded::Ok(o) => *o,
        Decoded::Err(e) => return fail(format!("loader-rejects-own-output/{class}"), format!("from_bytes(as_bytes()) = Err({e}) for an ontology built via {pn}")),
        Decoded::Panic(p) => return fail(format!("loader-panics-on-own-output/{class}"), format!("from_bytes(as_bytes()) panicked for an ontology built via {pn}: {p}")),
    };
    let s2 = guarded(|| observe(&o2)).map_err(|p| Failure { signature: "observe-panic/reloaded".into(), message: p })?;
    let want = expected_after_roundtrip(&s1);
    if s2 != want {
        let d = diff_snapshots(&want, &s2);
        let kind: String = d.first().map(|x| x.split(' ').next().unwrap_or("").to_string()).unwrap_or_default();
        return fail(format!("roundtrip-differs/{kind}"), format!("after as_bytes -> from_bytes (source via {pn}): {}", d.iter().take(4).cloned().collect::<Vec<_>>().join(" | ")));
    }
    // second round trip is a fixed point
    let o3 = match roundtrip(&o2) {
        Ok(o) => o,
        Err(e) => return fail("second-roundtrip/fails", e),
    };
    let s3 = guarded(|| observe(&o3)).map_err(|p| Failure { signature: "observe-panic/reloaded2".into(), message: p })?;
    ensure!(s3 == s2, "second-roundtrip/differs", "second round trip changes the ontology: {:?}", diff_snapshots(&s2, &s3).first());
    // from_binary (file) == from_bytes
    let file_ok = SCRATCH.with(|sc| -> Result<(), String> {
        let p = sc.path.join("o.hpo");
        std::fs::write(&p, &bytes).map_err(|e| e.to_string())?;
        match guarded(|| Ontology::from_binary(&p)) {
            Ok(Ok(o)) => {
                let s = observe(&o);
                if s != s2 {
                    return Err("from_binary(file) differs from from_bytes(bytes)".into());
                }
                Ok(())
            }
            Ok(Err(e)) => Err(format!("from_binary(file) = Err({e})")),
            Err(p) => Err(format!("from_binary(file) panicked: {p}")),
        }
    });
    if let Err(e) = file_ok {
        return fail("from_binary", e);
    }
    // Ontology::compare sees no difference when nothing had to be cut
    if class == "names-fit" {
        if let Err(e) = guarded(|| compare_empty(&src, &o2)).unwrap_or_else(|p| Err(format!("compare panicked: {p}"))) {
            return fail("compare-after-roundtrip", e);
        }
        if let Err(e) = guarded(|| compare_empty(&o2, &src)).unwrap_or_else(|p| Err(format!("compare panicked: {p}"))) {
            return fail("compare-after-roundtrip", e);
        }
    }
    stats.label(class);
    stats.count(&format!("source:{pn}"), 1);
    let flagged = s1.terms.values().any(|t| t.obsolete || t.replacement.is_some());
    let all_kinds = (0..3).all(|k| !s1.recs[k].is_empty());
    let names = s1.terms.values().any(|t| t.name.len() > 250 || !t.name.is_ascii());
    if s1.terms.values().any(|t| t.obsolete) {
        stats.label("obsolete");
    }
    if s1.terms.values().any(|t| t.replacement.is_some()) {
        stats.label("replaced");
    }
    if (0..3).any(|k| s1.recs[k].is_empty()) {
        stats.label("empty-section");
    }
    if (0..3).any(|k| s1.recs[k].values().any(|r| r.terms.is_empty())) {
        stats.label("record-without-terms");
    }
    if bytes.len() > 65_535 {
        stats.label("file>65535-bytes");
    }
    if c.facts.version.1 > 12 || c.facts.version.2 > 31 {
        stats.label("non-calendar-version");
    }
    if s1.terms.values().any(|t| t.replacement.is_some_and(|r| r >= 10_000_000)) {
        stats.label("replacement-beyond-id-space");
    }
    if s1.terms.contains_key(&9_999_999) {
        stats.label("max-term-id");
    }
    if (0..3).any(|k| s1.recs[k].contains_key(&u32::MAX)) {
        stats.label("max-record-id");
    }
    if flagged && all_kinds && names {
        stats.label("nontrivial");
        let mut h = Fnv::new();
        h.u64(c.facts.canonical_hash());
        h.bytes(pn.as_bytes());
        stats.nontrivial(h.finish());
        stats.sample(|| json!({"source": pn, "bytes": bytes.len(), "terms": s1.terms.len(), "name_class": class,
            "names": s1.terms.values().take(4).map(|t| t.name.chars().take(24).collect::<String>()).collect::<Vec<_>>(),
            "records": [s1.recs[0].len(), s1.recs[1].len(), s1.recs[2].len()]}));
    }
    Ok(())
}

fn strategy(tier: Tier) -> BoxedStrategy<OntCase> {
    let max = if tier == Tier::Quick { 14 } else { 40 };
    let rich = GenCfg::small().terms(2, max).recs(5).standard().with_flags(true).names(NameMode::Rich).bulk();
    let capped = GenCfg::small().terms(2, max).recs(5).standard().with_flags(true).names(NameMode::Capped).bulk();
    prop_oneof![
        3 => gen::facts(rich.clone()).prop_map(|facts| OntCase { facts, path: PathSel::BuilderDefaults, noise: JaxNoise::default() }),
        3 => (gen::facts(capped), proptest::bool::weighted(0.01)).prop_map(|(facts, big)| {
            // 1 in 100: 300 extra terms with 200-byte names, records annotated to all of them
            // (sections beyond 65 535 bytes, records with more than 256 terms)
            let facts = if big { super::c08::inflate(&facts) } else { facts };
            OntCase { facts, path: PathSel::Bin(3), noise: JaxNoise::default() }
        }),
        3 => (gen::facts(rich), noise_strategy(), any::<bool>()).prop_map(|(facts, noise, t)| OntCase { facts, path: if t { PathSel::JaxT } else { PathSel::Jax }, noise }),
    ]
    .boxed()
}

impl Property for C07 {
    fn id(&self) -> &'static str {
        "C07"
    }
    fn rule(&self) -> String {
        "Generated: ontologies containing HP:0000001 and HP:0000118 with ASCII / multi-byte / empty names and names of 240-300 bytes with a multi-byte character straddling byte 255, obsolete and replaced terms (existing, self, dangling replacement), empty annotation sections, records without terms, term id 9_999_999 and record id u32::MAX; source ontology built through the Builder (long names), own v3 bytes (flags) or rendered JAX files (long names and flags). Oracle (round trip + differential): from_bytes(o.as_bytes()) is Ok (no Err, no panic); the complete read-API snapshot equals the source's with term and gene names cut to their longest <=255-byte prefix on a char boundary (disease names unchanged); a second round trip is a fixed point; from_binary(file) equals from_bytes; Ontology::compare reports nothing in both directions when no name had to be cut. evaluations = round trips. Non-trivial = >=1 obsolete or replaced term, a record of every kind, and a name >250 bytes or multi-byte; distinct = hash(canonical facts, source path).".into()
    }
    fn assumptions(&self) -> Vec<String> {
        vec![
            "a serialised term/gene name longer than 255 bytes comes back as its longest prefix of at most 255 bytes ending on a character boundary".into(),
            "replacement id 0 is not generated (0 encodes 'no replacement' in the documented layout)".into(),
        ]
    }
    fn cases(&self, tier: Tier) -> u64 {
        match tier {
            Tier::Quick => 60_000,
            Tier::Thorough => 600_000,
        }
    }
    fn required_labels(&self, _tier: Tier) -> Vec<&'static str> {
        vec!["nontrivial", "term-name-multibyte-at-255", "gene-name-multibyte-at-255", "name-over-255", "names-fit", "obsolete", "replaced", "empty-section", "record-without-terms", "max-term-id", "max-record-id", "file>65535-bytes", "non-calendar-version", "replacement-beyond-id-space", "bulk>65535-terms", "depth>255", "direct-parents>255"]
    }
    fn run_generated(&self, tier: Tier, seed: u64, n: u64, stats: &mut Stats) -> Option<(Value, Failure)> {
        run_typed(strategy(tier), seed, n, stats, check)
    }
    fn replay(&self, case: &Value, stats: &mut Stats) -> Result<CheckResult, String> {
        if let Some(b) = case.get("bulk") {
            // more than 65 535 terms (see `bulk_facts`), through the ordinary round-trip check
            let v: (u32, u32, u32, PathSel) = serde_json::from_value(b.clone()).map_err(|e| e.to_string())?;
            stats.cases += 1;
            let c = OntCase { facts: bulk_facts(v.0, v.1, v.2), path: v.3, noise: Default::default() };
            let r = check(&c, stats);
            if r.is_ok() {
                stats.label("bulk>65535-terms");
            }
            return Ok(r);
        }
        if let Some(b) = case.get("deep") {
            let v: (u32, u32, u32, PathSel) = serde_json::from_value(b.clone()).map_err(|e| e.to_string())?;
            stats.cases += 1;
            let c = OntCase { facts: deep_facts(v.0, v.1, v.2), path: v.3, noise: Default::default() };
            let r = check(&c, stats);
            if r.is_ok() {
                stats.label("depth>255");
            }
            return Ok(r);
        }
        if let Some(b) = case.get("fanin") {
            // one term with more direct parents than an 8-bit counter holds (see `fanin_facts`)
            let v: (u32, u32, u32, PathSel) = serde_json::from_value(b.clone()).map_err(|e| e.to_string())?;
            stats.cases += 1;
            let c = OntCase { facts: super::common::fanin_facts(v.0, v.1, v.2), path: v.3, noise: Default::default() };
            let r = check(&c, stats);
            if r.is_ok() {
                stats.label("direct-parents>255");
            }
            return Ok(r);
        }
        replay_typed::<OntCase, _>(case, stats, check)
    }
    fn isolated_plans(&self, tier: Tier, seed: u64) -> Vec<Value> {
        let mult = [1_299_709u32, 7919, 104_729][(seed % 3) as usize];
        let mut out = vec![json!({"bulk": (65_800u32, mult, 30u32, PathSel::BuilderDefaults)}), json!({"deep": (300u32, mult, 10u32, PathSel::Bin(3))})];
        if tier == Tier::Thorough {
            out.push(json!({"bulk": (70_100u32, mult, 200u32, PathSel::Bin(3))}));
            out.push(json!({"deep": (4200u32, mult, 30u32, PathSel::BuilderDefaults)}));
        }
        out.push(json!({"fanin": (300u32, mult, 10u32, PathSel::BuilderDefaults)}));
        if tier == Tier::Thorough {
            out.push(json!({"fanin": (66_000u32, mult, 30u32, PathSel::Bin(3))}));
        }
        out
    }
}
