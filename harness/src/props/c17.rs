//! C17 — hierarchical clustering returns a valid dendrogram built from closest pairs.

use crate::model::*;
use crate::observe::guarded;
use crate::runner::*;
use crate::ensure;
use hpo::annotations::AnnotationId;
use hpo::stats::Linkage;
use hpo::term::HpoGroup;
use hpo::utils::Combinations;
use hpo::{HpoSet, Ontology};
use proptest::collection::vec;
use proptest::prelude::*;
use serde::{Deserialize, Serialize};
use serde_json::{json, Value};
use std::cell::RefCell;
use std::collections::{BTreeMap, BTreeSet};

pub struct C17;

pub const NT: u32 = 96;
/// terms of the fixture (generated cases use the first 96; the large sweeps up to 700 input sets)
pub const NT_MAX: u32 = 700;

thread_local! {
    static FLAT: Ontology = {
        // loaded from own v3 bytes; every seventh term is flagged obsolete (must not matter)
        let mut f = Facts::default();
        for i in 1..=NT_MAX {
            f.terms.push(TermFact { id: i, name: format!("t{i}"), obsolete: i % 7 == 3, replacement: None });
            // two levels below HP:0000001: every fifth term is a modifier root, the term after it its child, the
            // others are phenotype terms below HP:0000118 (which terms of a set are modifiers must not matter)
            match i {
                1 => {}
                118 => f.edges.push((118, 1)),
                _ if i % 5 == 0 => f.edges.push((i, 1)),
                _ if i % 5 == 1 && i > 5 && i - 1 != 118 => f.edges.push((i, i - 1)),
                _ => f.edges.push((i, 118)),
            }
        }
        // a few records of every kind (set similarity / clustering must not depend on annotations)
        for k in 0..3usize {
            for r in 1..=4u32 {
                let terms: Vec<u32> = f.terms.iter().map(|t| t.id).filter(|id| (id + r + k as u32) % (3 + r) == 0).take(12).collect();
                f.recs[k].push(RecFact { id: r, name: format!("r{k}{r}"), terms });
            }
        }
        crate::build::via_binary(&f, 3).expect("flat ontology")
    };
}

#[derive(Clone, Debug, Serialize, Deserialize, PartialEq)]
pub struct Case {
    /// 0 single, 1 complete, 2 average, 3 union
    pub method: u8,
    /// the input sets: pairwise disjoint, non-empty sets of term ids 1..=96
    pub sets: Vec<Vec<u32>>,
    /// symmetric n x n table of initial distances (methods 0-2)
    pub table: Vec<f32>,
    /// seed of the content-based distance function (method 3)
    pub seed: u64,
    /// subtracted from every content-based distance (negative and mixed-sign distances)
    #[serde(default)]
    pub shift: f32,
    /// how the input sets are handed over: 0 Vec, 1 filtered iterator (size hint 0..n),
    /// 2 Vec chained with a filtered iterator (lower size hint < n), 3 map_while iterator,
    /// 4 filter over a source twice as long (upper size hint 2n)
    #[serde(default)]
    pub iter_kind: u8,
    /// pairs of inputs whose initial distance is infinite (methods 0-2; JSON has no infinite numbers)
    #[serde(default)]
    pub inf_pairs: Vec<(u16, u16)>,
    /// content-based distance (method 3): that many of 256 hash classes are infinitely far apart
    #[serde(default)]
    pub inf_rate: u8,
    /// the infinite distances are -inf instead of +inf (never both: their mean would be NaN)
    #[serde(default)]
    pub inf_neg: bool,
    /// every distance is multiplied by 10^scale_exp (magnitude classes: distances far below
    /// f32::EPSILON or far above 1; 0 = as generated)
    #[serde(default)]
    pub scale_exp: i8,
}

const METHODS: [&str; 4] = ["single", "complete", "average", "union"];

/// symmetric pseudo-random distance of two sets, a function of their contents only
/// Exponent code for "scaled so that the largest distance is 3e38": finite, but sums of two distances overflow f32.
pub const SCALE_TOP: i8 = 127;

/// The factor of a magnitude class: 10^e, or for `SCALE_TOP` the factor that maps `max_abs` to 3e38.
fn scale_factor(e: i8, max_abs: f64) -> f64 {
    if e == SCALE_TOP {
        if max_abs == 0.0 {
            1.0
        } else {
            3.0e38 / max_abs
        }
    } else {
        10f64.powi(i32::from(e))
    }
}

/// v * factor, rounded once (the result may be subnormal)
fn scaled(v: f32, factor: f64) -> f32 {
    if factor == 1.0 {
        v
    } else {
        (f64::from(v) * factor) as f32
    }
}

fn content_distance(seed: u64, shift: f32, inf: (u8, bool, f64), a: &BTreeSet<u32>, b: &BTreeSet<u32>) -> f32 {
    let h = |s: &BTreeSet<u32>| {
        let mut f = Fnv::new();
        f.u64(seed);
        for x in s {
            f.u64(u64::from(*x));
        }
        f.finish()
    };
    let (x, y) = (h(a), h(b));
    let (lo, hi) = (x.min(y), x.max(y));
    let mut f = Fnv::new();
    f.u64(lo);
    f.u64(hi);
    let h = f.finish();
    if ((h & 0xff) as u8) < inf.0 {
        return if inf.1 { f32::NEG_INFINITY } else { f32::INFINITY };
    }
    // 24 bit mantissa: exactly representable, distinct with high probability
    scaled(((h >> 40) as f32 + 1.0) / 16_777_216.0 - shift, inf.2)
}

/// Drains a double-ended iterator with `next`, `next_back`, `nth(k)` and `nth_back(k)` in an order given by the bits
/// of `pattern` (called on the iterator itself, not through an adaptor) and compares every element with the
/// reference sequence `want` (the front-to-back reading).
fn walk_both_ends<I, T, C>(mut it: I, conv: C, want: &[T], pattern: u64) -> Result<(), String>
where
    I: DoubleEndedIterator + ExactSizeIterator,
    T: PartialEq + std::fmt::Debug,
    C: Fn(I::Item) -> T,
{
    let (mut lo, mut hi) = (0usize, want.len());
    if it.len() != hi {
        return Err(format!("len() = {} for {hi} merges", it.len()));
    }
    let mut k = 0u32;
    loop {
        let bits = (pattern.rotate_right(k * 5)) & 0x1f;
        k += 1;
        let from_back = bits & 1 == 1;
        // one call in four skips 1-3 elements
        let skip = if bits & 6 == 6 { 1 + (bits >> 3) as usize % 3 } else { 0 };
        let (call, got) = match (from_back, skip) {
            (false, 0) => ("next()".to_string(), it.next()),
            (true, 0) => ("next_back()".to_string(), it.next_back()),
            (false, n) => (format!("nth({n})"), it.nth(n)),
            (true, n) => (format!("nth_back({n})"), it.nth_back(n)),
        };
        let expect = if lo + skip < hi {
            let i = if from_back { hi - 1 - skip } else { lo + skip };
            if from_back {
                hi -= skip + 1;
            } else {
                lo += skip + 1;
            }
            Some(i)
        } else {
            lo = hi;
            None
        };
        match (got.map(&conv), expect) {
            (None, None) => {}
            (Some(g), Some(i)) if g == want[i] => {}
            (g, e) => return Err(format!("{call} yields {g:?}, expected {:?} (merge {e:?} of the front-to-back reading)", e.map(|i| &want[i]))),
        }
        if it.len() != hi - lo {
            return Err(format!("len() = {} after {call} with {} merges left", it.len(), hi - lo));
        }
        if lo == hi {
            break;
        }
    }
    if it.next().is_some() || it.next_back().is_some() {
        return Err("yields elements after it ended".into());
    }
    Ok(())
}

pub fn check(c: &Case, stats: &mut Stats) -> CheckResult {
    let n = c.sets.len();
    ensure!(n >= 2 && c.method < 4 && c.table.len() == n * n, "harness/bad-case", "malformed case");
    let contents: Vec<BTreeSet<u32>> = c.sets.iter().map(|s| s.iter().copied().collect()).collect();
    for s in &contents {
        ensure!(s.iter().all(|t| (1..=NT_MAX).contains(t)), "harness/bad-case", "input sets are over the terms 1..=700");
    }
    // at most one empty input (two would be indistinguishable for the table lookup by content)
    ensure!(contents.iter().filter(|s| s.is_empty()).count() <= 1, "harness/bad-case", "at most one empty input set");
    // inputs may overlap, and two or more of them may have the very same terms. The table is looked up by content, so
    // it is made a function of the contents below: inputs with equal contents get equal rows, and one common value
    // (in general not zero) among themselves
    let mut by_content: BTreeMap<BTreeSet<u32>, usize> = BTreeMap::new();
    for (i, s) in contents.iter().enumerate() {
        by_content.entry(s.clone()).or_insert(i);
    }
    let rep: Vec<usize> = contents.iter().map(|s| by_content[s]).collect();
    if by_content.len() != n {
        stats.label("input-sets-with-equal-contents");
    }
    if (0..n).any(|i| (i + 1..n).any(|j| contents[i].intersection(&contents[j]).next().is_some())) {
        stats.label("overlapping-input-sets");
    }
    let method = c.method;
    let mname = METHODS[method as usize];
    // log of every callback invocation: the pairs (content a, content b) it was asked for
    let log: RefCell<Vec<Vec<(BTreeSet<u32>, BTreeSet<u32>)>>> = RefCell::new(Vec::new());
    let mut table = c.table.clone();
    let inf_value = if c.inf_neg { f32::NEG_INFINITY } else { f32::INFINITY };
    for (i, j) in &c.inf_pairs {
        let (i, j) = (*i as usize % n, *j as usize % n);
        if i != j {
            table[i * n + j] = inf_value;
            table[j * n + i] = inf_value;
        }
    }
    ensure!((-45..=30).contains(&c.scale_exp) || c.scale_exp == SCALE_TOP, "harness/bad-case", "scale exponent out of range");
    let max_abs = table.iter().filter(|v| v.is_finite()).fold(0.0f64, |m, v| m.max(f64::from(v.abs())));
    let factor = scale_factor(c.scale_exp, max_abs);
    for v in table.iter_mut() {
        *v = scaled(*v, factor);
    }
    ensure!(table.iter().all(|v| !v.is_nan()) && (c.scale_exp != SCALE_TOP || table.iter().all(|v| v.is_infinite() || v.abs() <= 3.0001e38)), "harness/bad-case", "scaling produced a value outside the class");
    if by_content.len() != n {
        let src = table.clone();
        // value among the members of a class: the representative's distance to its first duplicate
        let within: Vec<f32> = (0..n).map(|i| (0..n).find(|j| *j != rep[i] && rep[*j] == rep[i]).map_or(0.0, |j| src[rep[i] * n + j])).collect();
        for i in 0..n {
            for j in 0..n {
                if i != j {
                    table[i * n + j] = if rep[i] == rep[j] { within[i] } else { src[rep[i] * n + rep[j]] };
                }
            }
        }
    }
    let table = &table;
    let seed = c.seed;
    let shift = c.shift;
    let inf = (c.inf_rate, c.inf_neg, if method == 3 { scale_factor(c.scale_exp, 2.0) } else { factor });
    // a set handed to the callback must be a set: strictly ascending iteration, len() = number of terms
    let malformed: RefCell<Option<String>> = RefCell::new(None);
    let distance = |combs: Combinations<HpoSet<'_>>| -> Vec<f32> {
        let mut asked = Vec::new();
        let mut out = Vec::new();
        for (a, b) in combs {
            for s in [&a, &b] {
                let v: Vec<u32> = s.iter().map(|t| t.id().as_u32()).collect();
                if v.windows(2).any(|w| w[0] >= w[1]) || v.len() != s.len() {
                    malformed.borrow_mut().get_or_insert(format!("{v:?} (len() = {})", s.len()));
                }
            }
            let ca: BTreeSet<u32> = a.iter().map(|t| t.id().as_u32()).collect();
            let cb: BTreeSet<u32> = b.iter().map(|t| t.id().as_u32()).collect();
            let d = if method == 3 {
                content_distance(seed, shift, inf, &ca, &cb)
            } else {
                match (by_content.get(&ca), by_content.get(&cb)) {
                    // two inputs with equal contents: the value of their class
                    (Some(i), Some(j)) if i == j => (0..n).find(|x| x != i && rep[*x] == *i).map_or(table[i * n + i], |x| table[i * n + x]),
                    (Some(i), Some(j)) => table[i * n + j],
                    _ => f32::NAN,
                }
            };
            asked.push((ca, cb));
            out.push(d);
        }
        log.borrow_mut().push(asked);
        out
    };
    stats.eval(1);
    let res = FLAT.with(|o| {
        guarded(|| {
            let sets: Vec<HpoSet> = c
                .sets
                .iter()
                .map(|s| {
                    let mut g = HpoGroup::new();
                    for t in s {
                        g.insert(*t);
                    }
                    HpoSet::new(o, g)
                })
                .collect();
            // the constructors take any `IntoIterator`: exercise iterators without an exact size hint
            let half = sets.len() / 2;
            let mut tail = sets;
            let head: Vec<HpoSet> = tail.drain(..half).collect();
            let input: Box<dyn Iterator<Item = HpoSet>> = match c.iter_kind % 5 {
                0 => Box::new(head.into_iter().chain(tail).collect::<Vec<HpoSet>>().into_iter()),
                1 => Box::new(head.into_iter().chain(tail).filter(|_| true)),
                2 => Box::new(head.into_iter().chain(tail.into_iter().filter(|_| true))),
                3 => Box::new(head.into_iter().chain(tail).map_while(Some)),
                // a lazy filter over a longer source: the upper size bound is twice what it yields
                _ => {
                    let padded: Vec<HpoSet> = head.into_iter().chain(tail).flat_map(|s| [s, HpoSet::new(o, HpoGroup::new())]).collect();
                    Box::new(padded.into_iter().enumerate().filter(|(i, _)| i % 2 == 0).map(|(_, s)| s))
                }
            };
            let l = match method {
                0 => Linkage::single(input, &distance),
                1 => Linkage::complete(input, &distance),
                2 => Linkage::average(input, &distance),
                _ => Linkage::union(input, &distance),
            };
            let a: Vec<(usize, usize, f32, usize)> = l.cluster().map(|c| (c.lhs(), c.rhs(), c.distance(), c.len())).collect();
            let b: Vec<(usize, usize, f32, usize)> = l.iter().map(|c| (c.lhs(), c.rhs(), c.distance(), c.len())).collect();
            let b2: Vec<(usize, usize, f32, usize)> = (&l).into_iter().map(|c| (c.lhs(), c.rhs(), c.distance(), c.len())).collect();
            let idx = l.indicies();
            // the dendrogram read from the back and from both ends at once (next / next_back in a generated
            // order), through the borrowing and the consuming iterator
            let tup = |c: &hpo::stats::cluster::Cluster| (c.lhs(), c.rhs(), c.distance(), c.len());
            // (bit patterns of the distances, so that elements compare exactly)
            let bits = |t: (usize, usize, f32, usize)| (t.0, t.1, t.2.to_bits(), t.3);
            let want: Vec<(usize, usize, u32, usize)> = a.iter().copied().map(bits).collect();
            let walked = |r: Result<(), String>| r.map(|()| a.clone());
            let mut ends: Vec<(&'static str, Result<Vec<(usize, usize, f32, usize)>, String>)> = vec![
                ("cluster().rev()", Ok(l.cluster().rev().map(tup).collect::<Vec<_>>().into_iter().rev().collect())),
                ("cluster() from both ends", walked(walk_both_ends(l.cluster(), |c| bits(tup(c)), &want, c.seed))),
                ("iter() from both ends", walked(walk_both_ends(l.iter(), |c| bits(tup(c)), &want, !c.seed))),
                ("&linkage from both ends", walked(walk_both_ends((&l).into_iter(), |c| bits(tup(c)), &want, c.seed.rotate_left(29)))),
            ];
            let d: Vec<(usize, usize, f32, usize)> = match c.seed % 3 {
                0 => l.into_cluster().map(|c| tup(&c)).collect(),
                1 => {
                    ends.push(("into_cluster().rev()", Ok(l.into_cluster().rev().map(|c| tup(&c)).collect::<Vec<_>>().into_iter().rev().collect())));
                    a.clone()
                }
                _ => {
                    ends.push(("into_cluster() from both ends", walked(walk_both_ends(l.into_cluster(), |c| bits(tup(&c)), &want, c.seed.rotate_left(17)))));
                    a.clone()
                }
            };
            (a, b, b2, idx, d, ends)
        })
    });
    let (clusters, via_iter, via_ref, indicies, via_into, ends) = match res {
        Ok(v) => v,
        Err(p) => return fail(format!("{mname}/panic"), format!("Linkage::{mname} on {n} sets panicked: {p}")),
    };
    if let Some(m) = malformed.into_inner() {
        return fail(format!("{mname}/callback-set-malformed"), format!("the distance callback was handed a set that is not a set (repeated or unordered terms): {m}"));
    }
    let same = |x: &Vec<(usize, usize, f32, usize)>| x.len() == clusters.len() && x.iter().zip(&clusters).all(|(a, b)| a.0 == b.0 && a.1 == b.1 && a.2.to_bits() == b.2.to_bits() && a.3 == b.3);
    ensure!(same(&via_iter) && same(&via_ref) && same(&via_into), format!("{mname}/iterators-disagree"), "cluster() / iter() / &linkage / into_cluster() yield different sequences");
    for (how, got) in &ends {
        match got {
            Err(e) => return fail(format!("{mname}/iterators-disagree/from-the-back"), format!("{how}: {e}")),
            Ok(v) => ensure!(same(v), format!("{mname}/iterators-disagree/from-the-back"), "{how} yields {v:?}, read from the front the merges are {clusters:?}"),
        }
    }
    // ---- structure
    ensure!(clusters.len() == n - 1, format!("{mname}/merge-count"), "{} merges for {n} inputs", clusters.len());
    let mut live: BTreeSet<usize> = (0..n).collect();
    let mut size: BTreeMap<usize, usize> = (0..n).map(|i| (i, 1)).collect();
    let mut content: BTreeMap<usize, BTreeSet<u32>> = contents.iter().cloned().enumerate().collect();
    // current distances between live clusters, key (min,max)
    let mut dist: BTreeMap<(usize, usize), f32> = BTreeMap::new();
    for i in 0..n {
        for j in i + 1..n {
            let d = if method == 3 { content_distance(seed, shift, inf, &contents[i], &contents[j]) } else { table[i * n + j] };
            dist.insert((i, j), d);
        }
    }
    let key = |a: usize, b: usize| (a.min(b), a.max(b));
    let mut joined_two_clusters = false;
    let mut tie_seen = false;
    for (k, (a, b, d, len)) in clusters.iter().enumerate() {
        let (a, b) = (*a, *b);
        ensure!(a != b && live.contains(&a) && live.contains(&b), format!("{mname}/merged-twice-or-unknown"), "merge {k} joins ({a},{b}); live clusters are {live:?}");
        let cur = dist[&key(a, b)];
        ensure!(d.to_bits() == cur.to_bits(), format!("{mname}/reported-distance"), "merge {k} joins ({a},{b}) at reported distance {d}, their distance at that moment is {cur}");
        let min = dist.values().copied().fold(f32::INFINITY, f32::min);
        ensure!(cur <= min, format!("{mname}/not-the-closest-pair"), "merge {k} joins ({a},{b}) at distance {cur} although a pair at distance {min} exists: {:?}", dist.iter().find(|(_, v)| **v == min));
        if dist.values().filter(|v| **v == min).count() > 1 {
            tie_seen = true;
        }
        let want_len = size[&a] + size[&b];
        ensure!(*len == want_len, format!("{mname}/cluster-size"), "merge {k} joins ({a},{b}) of sizes {} and {}, reported len {len}", size[&a], size[&b]);
        if a >= n && b >= n {
            joined_two_clusters = true;
        }
        // update
        let new = n + k;
        live.remove(&a);
        live.remove(&b);
        let merged: BTreeSet<u32> = content[&a].union(&content[&b]).copied().collect();
        for x in &live {
            let (d1, d2) = (dist[&key(*x, a)], dist[&key(*x, b)]);
            let nd = match method {
                0 => {
                    if d1 < d2 { d1 } else { d2 }
                }
                1 => {
                    if d1 > d2 { d1 } else { d2 }
                }
                2 => {
                    // the mean of the two parts, rounded once: the sum of two finite distances may exceed
                    // f32::MAX while their mean does not
                    let s = d1 + d2;
                    if s.is_finite() || d1.is_infinite() || d2.is_infinite() {
                        s / 2.0
                    } else {
                        d1 / 2.0 + d2 / 2.0
                    }
                }
                _ => content_distance(seed, shift, inf, &merged, &content[x]),
            };
            dist.insert(key(*x, new), nd);
        }
        dist.retain(|(x, y), _| *x != a && *x != b && *y != a && *y != b);
        live.insert(new);
        size.insert(new, want_len);
        content.insert(new, merged);
    }
    ensure!(clusters.last().map(|c| c.3) == Some(n), format!("{mname}/last-size"), "last merge has len {:?}, expected {n}", clusters.last().map(|c| c.3));
    ensure!(live.len() == 1, format!("{mname}/not-a-tree"), "{} clusters left after all merges", live.len());
    // ---- leaf order
    let mut sorted = indicies.clone();
    sorted.sort_unstable();
    ensure!(sorted == (0..n).collect::<Vec<usize>>(), format!("{mname}/indicies-not-a-permutation"), "indicies() = {indicies:?} for {n} inputs");
    // ---- callback protocol
    let log = log.into_inner();
    ensure!(!log.is_empty(), format!("{mname}/callback-never-called"), "distance callback was never invoked");
    let norm = |a: &BTreeSet<u32>, b: &BTreeSet<u32>| if a <= b { (a.clone(), b.clone()) } else { (b.clone(), a.clone()) };
    let mut want_pairs: Vec<(BTreeSet<u32>, BTreeSet<u32>)> = (0..n).flat_map(|i| (i + 1..n).map(move |j| (i, j))).map(|(i, j)| norm(&contents[i], &contents[j])).collect();
    let mut got_pairs: Vec<(BTreeSet<u32>, BTreeSet<u32>)> = log[0].iter().map(|(x, y)| norm(x, y)).collect();
    want_pairs.sort();
    got_pairs.sort();
    if let Some((x, y)) = got_pairs.iter().find(|p| want_pairs.binary_search(p).is_err()) {
        return fail(format!("{mname}/callback-initial-pairs"), format!("initial callback invocation asked for a pair that is not a pair of two different inputs: {x:?} / {y:?}"));
    }
    ensure!(got_pairs == want_pairs, format!("{mname}/callback-initial-pairs"), "initial callback invocation asked for {} pairs, expected each of the {} unordered pairs of inputs once", got_pairs.len(), n * (n - 1) / 2);
    // (how often the callback is invoked after the initial call is not part of the property)
    stats.count(&format!("callback-invocations:{mname}"), log.len() as u64);
    stats.label(mname);
    if c.iter_kind % 5 != 0 {
        stats.label("input-iterator-without-exact-size");
    }
    let neg = clusters.iter().filter(|c| c.2 < 0.0).count();
    if neg == clusters.len() {
        stats.label("all-merge-distances-negative");
    } else if neg > 0 {
        stats.label("mixed-sign-distances");
    }
    if clusters.iter().any(|c| c.2.is_infinite()) {
        stats.label("infinite-distance");
        if clusters.iter().all(|c| c.2.is_infinite()) {
            stats.label("all-distances-infinite");
        }
    }
    if clusters.iter().any(|c| c.2 != 0.0 && c.2.abs() < f32::EPSILON) {
        stats.label("distance-below-epsilon");
    }
    if c.scale_exp == SCALE_TOP && clusters.iter().any(|c| c.2.is_finite() && c.2.abs() > 1.8e38) {
        stats.label("finite-distances-above-half-of-f32-max");
    }
    if clusters.iter().any(|c| c.2.is_finite() && c.2.abs() > 1e9) {
        stats.label("distance-above-1e9");
    }
    if tie_seen {
        stats.label("tie");
    }
    if c.sets.iter().any(|s| s.len() > 30) {
        stats.label("input-set-with-more-than-30-terms");
    }
    if c.sets.iter().any(|s| s.len() > 1) {
        stats.label("multi-term-inputs");
    }
    if c.sets.iter().any(|s| s.is_empty()) {
        stats.label("empty-input-set");
    }
    if n >= 4 && joined_two_clusters {
        stats.label("nontrivial");
        stats.nontrivial(hash_json(c));
        stats.sample(|| json!({"method": mname, "n": n, "merges": clusters.iter().map(|c| json!([c.0, c.1, c.2, c.3])).collect::<Vec<_>>(), "indicies": indicies, "callback_invocations": log.len()}));
    }
    Ok(())
}

fn strategy(tier: Tier) -> BoxedStrategy<Case> {
    let max = if tier == Tier::Quick { 24usize } else { 40 };
    (2..=max, 0u8..4, vec(any::<u16>(), NT as usize), vec(0u8..8, 40), vec(any::<u32>(), 40 * 40), any::<u64>(), proptest::bool::weighted(0.15), 0u8..4, 0u8..5, (0u8..10, vec((any::<u16>(), any::<u16>()), 1..6), any::<bool>(), prop_oneof![8 => Just(0i8), 1 => Just(-10i8), 1 => Just(-9i8), 1 => -30i8..=-5, 1 => 5i8..=30, 1 => -45i8..=-36, 1 => Just(SCALE_TOP)]))
        .prop_map(|(n, method, keys, extra, raw, seed, coarse, sign, iter_kind, (inf_sel, inf_raw, inf_neg, scale_exp))| {
            // a random partition of a prefix of the 96 terms into n non-empty sets
            let mut order: Vec<(u16, u32)> = keys.iter().enumerate().map(|(i, k)| (*k, i as u32 + 1)).collect();
            order.sort();
            let mut it = order.into_iter().map(|x| x.1);
            let mut sets: Vec<Vec<u32>> = Vec::new();
            for i in 0..n {
                let mut s = vec![it.next().unwrap()];
                // mostly singletons, sometimes up to 3 terms (n * 3 <= 96 + slack for n <= 32)
                let more = if extra[i % extra.len()] == 0 { 2 } else if extra[i % extra.len()] == 1 { 1 } else { 0 };
                for _ in 0..more {
                    if n * 3 <= NT as usize {
                        s.push(it.next().unwrap());
                    }
                }
                sets.push(s);
            }
            // in one case of four some inputs share terms (each keeps a term of its own, so contents
            // stay different): the largest, the smallest or a middle term of another input
            let disjoint = sets.clone();
            if extra[3] % 4 == 0 {
                let donors = 1 + (extra[4] as usize % 3);
                for d in 0..donors {
                    let from = (extra[5 + d] as usize * 5 + d) % n;
                    let to = (from + 1 + extra[8 + d] as usize) % n;
                    if from != to && !sets[from].is_empty() {
                        let mut src = sets[from].clone();
                        src.sort_unstable();
                        let t = match extra[11 + d] % 3 {
                            0 => src[src.len() - 1],
                            1 => src[0],
                            _ => src[src.len() / 2],
                        };
                        if !sets[to].contains(&t) {
                            sets[to].push(t);
                        }
                    }
                }
            }
            // in one case of eight one input has more terms than an id group stores inline (32-46 further terms
            // from the part of the fixture the other inputs do not use)
            if extra[20] == 0 {
                let j = extra[21] as usize % n;
                let first = 101 + u32::from(extra[22]) * 60;
                let count = 32 + u32::from(extra[23]) * 2;
                sets[j].extend(first..first + count);
            }
            // one input in ten cases is the empty set
            if extra[0] % 10 == 0 {
                let j = (extra[1] as usize * 7 + extra[2] as usize) % n;
                sets[j].clear();
            }
            // (mutual donations can make two contents equal: fall back to the disjoint sets)
            let distinct: BTreeSet<BTreeSet<u32>> = sets.iter().map(|s| s.iter().copied().collect()).collect();
            if distinct.len() != n {
                let cleared: Vec<usize> = (0..n).filter(|i| sets[*i].is_empty()).collect();
                sets = disjoint;
                for i in cleared {
                    sets[i].clear();
                }
            }
            // in one case of six an input is handed over twice or three times (same terms, another object)
            if extra[24] < 2 && extra[25] != 0 {
                let from = (extra[26] as usize * 8 + extra[27] as usize) % n;
                if !sets[from].is_empty() {
                    for d in 0..=(extra[28] as usize % 2) {
                        let to = (from + 1 + extra[29 + d] as usize) % n;
                        if to != from && !sets[to].is_empty() {
                            sets[to] = sets[from].clone();
                        }
                    }
                }
            }
            // symmetric table; distinct values unless `coarse` (then ties are frequent)
            let mut table = vec![0.0f32; n * n];
            for i in 0..n {
                for j in i + 1..n {
                    let r = raw[i * 40 + j];
                    let v = if coarse { f32::from((r % 7) as u8) / 4.0 } else { (r >> 8) as f32 / 16_777_216.0 + ((i * 40 + j) as f32) };
                    table[i * n + j] = v;
                    table[j * n + i] = v;
                }
            }
            // sign classes: all positive / mixed (centred) / all negative / around zero incl. -0.0
            let max = table.iter().copied().fold(0.0f32, f32::max);
            let table_shift = match sign {
                0 => 0.0,
                1 => max / 2.0,
                2 => max + 1.0,
                _ => table.iter().copied().filter(|v| *v > 0.0).fold(f32::INFINITY, f32::min).min(max),
            };
            for i in 0..n {
                for j in 0..n {
                    if i != j {
                        table[i * n + j] -= table_shift;
                    }
                }
            }
            let shift = [0.0f32, 0.5, 2.0, 0.25][sign as usize];
            // one case in five has infinitely distant pairs: a few, or (n <= 6) all of them
            let (inf_pairs, inf_rate) = match inf_sel {
                0 => (inf_raw.iter().map(|(a, b)| (a % n as u16, b % n as u16)).collect(), 24),
                1 if n <= 6 => ((0..n as u16).flat_map(|i| (0..i).map(move |j| (j, i))).collect(), 255),
                1 => (inf_raw.iter().take(1).map(|(a, b)| (a % n as u16, b % n as u16)).collect(), 8),
                _ => (vec![], 0),
            };
            Case { method, sets, table, seed, shift, iter_kind, inf_pairs, inf_rate, inf_neg: inf_neg && inf_sel < 2, scale_exp }
        })
        .boxed()
}

/// More input sets than an 8-bit index addresses: `n` singleton sets (every 9th with two terms),
/// distinct pseudo-random distances (every 5th case of the seed: few distinct values, i.e. ties).
pub fn big_case(n: usize, method: u8, seed: u64) -> Case {
    let mut sets: Vec<Vec<u32>> = Vec::new();
    let mut next = 1u32;
    for i in 0..n {
        let k = if i % 9 == 4 && (next as usize) + 2 * (n - i) < NT_MAX as usize { 2 } else { 1 };
        sets.push((0..k).map(|_| { next += 1; next - 1 }).collect());
    }
    let coarse = seed % 5 == 0;
    let mut table = vec![0.0f32; n * n];
    let mut x = seed | 1;
    for i in 0..n {
        for j in i + 1..n {
            x = x.wrapping_mul(6364136223846793005).wrapping_add(1442695040888963407);
            let r = (x >> 40) as u32;
            let v = if coarse { f32::from((r % 11) as u8) / 4.0 } else { r as f32 / 16_777_216.0 + ((i * 7 + j) % 50) as f32 };
            table[i * n + j] = v;
            table[j * n + i] = v;
        }
    }
    Case { method: method % 4, sets, table, seed, shift: 0.25, iter_kind: (seed % 4) as u8, inf_pairs: vec![], inf_rate: 0, inf_neg: false, scale_exp: 0 }
}

impl Property for C17 {
    fn id(&self) -> &'static str {
        "C17"
    }
    fn rule(&self) -> String {
        "Generated: n in 2..=24 (thorough 40) input sets, in one case of four overlapping, in one case of six with two or three inputs of equal contents (the table then gives them equal rows and one common, in general non-zero, distance among themselves) (mostly singletons, some with 2-3 terms, in one case of eight one input with 33-47 terms, in one case of ten one input is the empty set) over 96 terms of a two-level ontology in which two terms in five are modifier terms, handed over as a Vec or as iterators without an exact size hint (filter, chain, map_while); for single/complete/average a generated symmetric table of initial distances (distinct values, or few values so that ties are frequent; shifted so that distances are all positive, mixed-sign, all negative or touch zero; in one case of five some pairs - for n <= 6 sometimes all - are infinitely far apart, +inf or -inf but never both; in one case of three all distances are scaled by 10^e, e in -45..=30, so that they lie far below f32::EPSILON, among the subnormal numbers, or far above 1; one further class scales them so that the largest is 3e38: all finite, but the sum of two distances can exceed f32::MAX); for union a symmetric pseudo-random distance that is a function of the two sets' contents, so merged sets get fresh values. Oracle = validity predicate simulated along the library's own merge choices (ties admit several dendrograms): exactly n-1 merges; each merge joins two live, different clusters (inputs or earlier merges n+k), so every input and intermediate cluster is merged exactly once and one cluster remains; the reported distance equals the pair's current distance bit for bit and no live pair is strictly closer; distances to the new cluster follow the method (min / max / mean of the two parts in f32 / content function of the union); len adds up and is n at the last merge; indicies() is a permutation of 0..n; cluster(), iter(), &linkage and into_cluster() agree, also when read from the back (rev) or from both ends in a generated order of next / next_back / nth(k) / nth_back(k) calls on the iterator itself, with len() equal to the number of merges left at every step; the first callback invocation asks every unordered pair of inputs exactly once (later invocations, which also pair the new set with itself, are not constrained). evaluations = clusterings. Non-trivial = n >= 4 and some merge joins two earlier clusters; distinct by hash of the case.".into()
    }
    fn assumptions(&self) -> Vec<String> {
        vec![
            "distances are finite (no NaN) and symmetric".into(),
            "'average' is the documented simplified mean of the two merged parts' distances, not UPGMA weighted by size".into(),
        ]
    }
    fn cases(&self, tier: Tier) -> u64 {
        match tier {
            Tier::Quick => 400_000,
            Tier::Thorough => 3_000_000,
        }
    }
    fn required_labels(&self, _tier: Tier) -> Vec<&'static str> {
        vec!["nontrivial", "input-sets-with-equal-contents", "single", "complete", "average", "union", "tie", "multi-term-inputs", "empty-input-set", "input-iterator-without-exact-size", "all-merge-distances-negative", "mixed-sign-distances", "infinite-distance", "all-distances-infinite", "distance-below-epsilon", "distance-above-1e9", "inputs>255", "overlapping-input-sets", "finite-distances-above-half-of-f32-max", "input-set-with-more-than-30-terms"]
    }
    fn run_generated(&self, tier: Tier, seed: u64, n: u64, stats: &mut Stats) -> Option<(Value, Failure)> {
        run_typed(strategy(tier), seed, n, stats, check)
    }
    fn replay(&self, case: &Value, stats: &mut Stats) -> Result<CheckResult, String> {
        if let Some(b) = case.get("big") {
            let v: (usize, u8, u64) = serde_json::from_value(b.clone()).map_err(|e| e.to_string())?;
            stats.cases += 1;
            let r = check(&big_case(v.0, v.1, v.2), stats);
            if r.is_ok() && v.0 > 255 {
                stats.label("inputs>255");
            }
            return Ok(r);
        }
        replay_typed::<Case, _>(case, stats, check)
    }
    fn isolated_plans(&self, tier: Tier, seed: u64) -> Vec<Value> {
        let mut out: Vec<Value> = (0..4u8).map(|m| json!({"big": (if m == 3 { 258usize } else { 300 }, m, seed.wrapping_mul(31).wrapping_add(u64::from(m)))})).collect();
        if tier == Tier::Thorough {
            out.push(json!({"big": (600usize, 0u8, seed ^ 5)}));
            out.push(json!({"big": (520usize, 2u8, seed ^ 10)}));
        }
        out
    }
}
