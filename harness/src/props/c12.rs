//! C12 — id groups behave as sorted sets; ancestor queries are their set algebra.

use crate::build::{via_builder, Finish};
use crate::gen::{self, pick, GenCfg};
use crate::model::*;
use crate::observe::guarded;
use crate::runner::*;
use crate::ensure;
use hpo::annotations::AnnotationId;
use hpo::term::HpoGroup;
use hpo::{HpoTermId, Ontology};
use proptest::collection::vec;
use proptest::prelude::*;
use serde::{Deserialize, Serialize};
use serde_json::{json, Value};
use std::collections::{BTreeSet, HashSet};

pub struct C12;

pub const POOL_LEN: usize = 96;
/// id pool: dense block, neighbours, borders of the id space and of u32
pub fn pool(i: usize) -> u32 {
    match i {
        0 => 0,
        1 => 1,
        2 => 2,
        3 => 9_999_999,
        4 => 10_000_000,
        5 => u32::MAX,
        6 => u32::MAX - 1,
        7 => 118,
        _ => 100 + (i as u32 - 8) * 3 + (i as u32 % 2),
    }
}

#[derive(Clone, Debug, Serialize, Deserialize, PartialEq)]
pub enum Op {
    Insert(u32),
    Contains(u32),
    Get(usize),
    Clear,
    Snapshot,
}

#[derive(Clone, Debug, Serialize, Deserialize, PartialEq)]
pub enum Case {
    Ops { ops: Vec<Op> },
    Pair { a: Vec<u32>, b: Vec<u32>, id: u32, ctor: u8 },
    Terms { facts: Facts },
}

thread_local! {
    static FLAT: Ontology = {
        let mut f = Facts::default();
        for i in 0..POOL_LEN {
            let id = pool(i);
            if id < 10_000_000 {
                f.terms.push(TermFact { id, name: format!("t{id}"), obsolete: false, replacement: None });
            }
        }
        via_builder(&f, Finish::Minimal).expect("flat ontology")
    };
}

fn well_formed(g: &HpoGroup, exp: &BTreeSet<u32>, what: &str) -> CheckResult {
    let got: Vec<u32> = g.iter().map(|i| i.as_u32()).collect();
    let want: Vec<u32> = exp.iter().copied().collect();
    ensure!(got == want, format!("group/{what}/content"), "{what}: iteration yields {got:?}, expected {want:?}");
    ensure!(g.len() == want.len(), format!("group/{what}/len"), "{what}: len {} != {}", g.len(), want.len());
    ensure!(g.is_empty() == want.is_empty(), format!("group/{what}/is_empty"), "{what}: is_empty {}", g.is_empty());
    let via_into: Vec<u32> = g.into_iter().map(|i| i.as_u32()).collect();
    ensure!(via_into == want, format!("group/{what}/into_iter"), "{what}: into_iter {via_into:?}");
    for (i, v) in want.iter().enumerate() {
        ensure!(
            g.get(i).map(|x| x.as_u32()) == Some(*v),
            format!("group/{what}/get"),
            "{what}: get({i}) = {:?}, expected {v}",
            g.get(i)
        );
        ensure!(g.contains(&HpoTermId::from_u32(*v)), format!("group/{what}/contains"), "{what}: contains({v}) false; content {got:?}");
        for n in [v.wrapping_sub(1), v.wrapping_add(1)] {
            ensure!(
                g.contains(&HpoTermId::from_u32(n)) == exp.contains(&n),
                format!("group/{what}/contains"),
                "{what}: contains({n}) = {}, content {got:?}",
                g.contains(&HpoTermId::from_u32(n))
            );
        }
    }
    ensure!(g.get(want.len()).is_none(), format!("group/{what}/get"), "{what}: get(len) is Some");
    Ok(())
}

/// `well_formed` for groups of tens of thousands of ids (messages name the first difference only).
fn well_formed_big(g: &HpoGroup, exp: &BTreeSet<u32>, what: &str) -> CheckResult {
    let got: Vec<u32> = g.iter().map(|i| i.as_u32()).collect();
    let want: Vec<u32> = exp.iter().copied().collect();
    if got != want {
        let pos = got.iter().zip(&want).position(|(a, b)| a != b).unwrap_or(got.len().min(want.len()));
        return fail(format!("group/{what}/content"), format!("{what} on {} ids: iteration yields {} ids, expected {}; first difference at position {pos}: {:?} vs {:?}", want.len(), got.len(), want.len(), got.get(pos), want.get(pos)));
    }
    ensure!(g.len() == want.len() && g.is_empty() == want.is_empty(), format!("group/{what}/len"), "{what}: len {} != {}", g.len(), want.len());
    for (i, v) in want.iter().enumerate().step_by(97).chain(want.iter().enumerate().rev().take(3)) {
        ensure!(g.get(i).map(|x| x.as_u32()) == Some(*v), format!("group/{what}/get"), "{what}: get({i}) = {:?}, expected {v}", g.get(i));
        ensure!(g.contains(&HpoTermId::from_u32(*v)), format!("group/{what}/contains"), "{what}: contains({v}) false ({} ids)", want.len());
        let n = v.wrapping_add(1);
        ensure!(g.contains(&HpoTermId::from_u32(n)) == exp.contains(&n), format!("group/{what}/contains"), "{what}: contains({n}) wrong ({} ids)", want.len());
    }
    ensure!(g.get(want.len()).is_none(), format!("group/{what}/get"), "{what}: get(len) is Some");
    Ok(())
}

/// Groups around the 8-bit and 16-bit size borders: constructors from shuffled vectors with
/// repetitions, operators in every direction, single-id insertion at both ends.
pub fn check_big_groups(na: u32, nb: u32, stats: &mut Stats) -> CheckResult {
    let a_ids: Vec<u32> = (0..na).map(|i| (i * 3) % 9_999_991).collect();
    let b_ids: Vec<u32> = (0..nb).map(|i| (i * 5 + 1) % 9_999_991).collect();
    // supply order: a multiplicative shuffle, every 10th id twice
    let shuffled = |v: &[u32]| -> Vec<u32> {
        let n = v.len().max(1);
        let mut out = Vec::with_capacity(n + n / 10);
        for i in 0..v.len() {
            let x = v[(i * 7919 + 13) % n];
            out.push(x);
            if i % 10 == 0 {
                out.push(x);
            }
        }
        // 7919 is prime: a permutation unless n is a multiple of it
        if n % 7919 == 0 { v.to_vec() } else { out }
    };
    let sa: BTreeSet<u32> = a_ids.iter().copied().collect();
    let sb: BTreeSet<u32> = b_ids.iter().copied().collect();
    let r = guarded(|| -> CheckResult {
        let ga = HpoGroup::from(shuffled(&a_ids));
        let gb: HpoGroup = shuffled(&b_ids).into_iter().map(HpoTermId::from_u32).collect();
        well_formed_big(&ga, &sa, "constructor")?;
        well_formed_big(&gb, &sb, "constructor")?;
        // the same ids through every other constructor that needs no ontology
        let as_ids: Vec<HpoTermId> = shuffled(&a_ids).into_iter().map(HpoTermId::from_u32).collect();
        well_formed_big(&HpoGroup::from(as_ids.clone()), &sa, "constructor:From<Vec<HpoTermId>>")?;
        well_formed_big(&HpoGroup::from(as_ids.iter().copied().collect::<std::collections::HashSet<HpoTermId>>()), &sa, "constructor:From<HashSet>")?;
        if na <= 70_000 {
            let mut by_insert = HpoGroup::with_capacity(7);
            for id in as_ids.iter().rev() {
                by_insert.insert(*id);
            }
            well_formed_big(&by_insert, &sa, "constructor:insert")?;
        }
        let un: BTreeSet<u32> = sa.union(&sb).copied().collect();
        let inter: BTreeSet<u32> = sa.intersection(&sb).copied().collect();
        well_formed_big(&(&ga | &gb), &un, "bitor(&,&)")?;
        well_formed_big(&(&gb | &ga), &un, "bitor(&,&)")?;
        well_formed_big(&(&ga & &gb), &inter, "bitand(&,&)")?;
        well_formed_big(&(&gb & &ga), &inter, "bitand(&,&)")?;
        well_formed_big(&(&ga | &ga), &sa, "bitor(same-object)")?;
        // a few ids against the long group: its smallest and largest id, every 97th member, and
        // non-members below, between and above
        let mut few: Vec<u32> = a_ids.iter().copied().step_by(97).collect();
        few.extend([*a_ids.first().unwrap_or(&0), *a_ids.last().unwrap_or(&0), 1, a_ids.last().unwrap_or(&0) + 1, a_ids.last().unwrap_or(&0) + 7, 4]);
        let sc: BTreeSet<u32> = few.iter().copied().collect();
        let gc = HpoGroup::from(few.clone());
        well_formed_big(&gc, &sc, "constructor")?;
        let un: BTreeSet<u32> = sa.union(&sc).copied().collect();
        let inter: BTreeSet<u32> = sa.intersection(&sc).copied().collect();
        well_formed_big(&(&ga | &gc), &un, "bitor(&,&)")?;
        well_formed_big(&(&gc | &ga), &un, "bitor(&,&)")?;
        well_formed_big(&(&ga & &gc), &inter, "bitand(&,&)")?;
        well_formed_big(&(&gc & &ga), &inter, "bitand(&,&)")?;
        well_formed_big(&(&ga & &ga), &sa, "bitand(same-object)")?;
        for id in [0u32, 1, 4, u32::MAX, 9_999_999] {
            let mut plus = sa.clone();
            plus.insert(id);
            well_formed_big(&(&ga + HpoTermId::from_u32(id)), &plus, "add(&,id)")?;
            let mut g2 = ga.clone();
            let newly = g2.insert(id);
            ensure!(newly != sa.contains(&id), "group/insert/return", "insert({id}) into {} ids returned {newly}", sa.len());
            well_formed_big(&g2, &plus, "insert")?;
        }
        Ok(())
    });
    stats.eval(20);
    match r {
        Ok(r) => r?,
        Err(p) => return fail("group/big/panic", format!("groups of {na} / {nb} ids: {p}")),
    }
    if na.max(nb) > 65_535 {
        stats.label("group>65535-ids");
    }
    if na.max(nb) > 255 {
        stats.label("group>255-ids");
    }
    Ok(())
}

fn check_ops(ops: &[Op], stats: &mut Stats) -> CheckResult {
    let mut g = HpoGroup::new();
    let mut m: BTreeSet<u32> = BTreeSet::new();
    let mut max_len = 0;
    for (step, op) in ops.iter().enumerate() {
        stats.eval(1);
        match op {
            Op::Insert(id) => {
                let r = g.insert(*id);
                let e = m.insert(*id);
                ensure!(r == e, "group/insert/return", "step {step}: insert({id}) returned {r}, set semantics say {e}");
            }
            Op::Contains(id) => {
                let r = g.contains(&HpoTermId::from_u32(*id));
                ensure!(r == m.contains(id), "group/ops/contains", "step {step}: contains({id}) = {r}, set {m:?}");
            }
            Op::Get(i) => {
                let r = g.get(*i).map(|x| x.as_u32());
                let e = m.iter().nth(*i).copied();
                ensure!(r == e, "group/ops/get", "step {step}: get({i}) = {r:?}, expected {e:?}");
            }
            Op::Clear => {
                g.clear();
                m.clear();
            }
            Op::Snapshot => well_formed(&g, &m, "ops")?,
        }
        ensure!(g.len() == m.len(), "group/ops/len", "step {step}: len {} != {}", g.len(), m.len());
        max_len = max_len.max(m.len());
    }
    well_formed(&g, &m, "ops")?;
    if max_len > 30 {
        stats.label("ops:len>30");
        stats.nontrivial(hash_json(&ops));
        stats.sample(|| json!({"ops": ops.iter().take(40).collect::<Vec<_>>(), "final_len": m.len()}));
    }
    Ok(())
}

fn construct(v: &[u32], ctor: u8) -> (HpoGroup, &'static str) {
    match ctor % 7 {
        0 => (HpoGroup::from(v.to_vec()), "From<Vec<u32>>"),
        1 => (
            HpoGroup::from(v.iter().map(|x| HpoTermId::from_u32(*x)).collect::<Vec<HpoTermId>>()),
            "From<Vec<HpoTermId>>",
        ),
        2 => (
            HpoGroup::from(v.iter().map(|x| HpoTermId::from_u32(*x)).collect::<HashSet<HpoTermId>>()),
            "From<HashSet>",
        ),
        3 => (v.iter().map(|x| HpoTermId::from_u32(*x)).collect::<HpoGroup>(), "FromIterator<HpoTermId>"),
        4 => {
            let mut g = HpoGroup::with_capacity(v.len() / 2);
            for x in v {
                g.insert(*x);
            }
            (g, "with_capacity+insert")
        }
        5 => {
            // through terms of an ontology (ids outside the arena cannot be terms)
            if v.iter().all(|x| *x < 10_000_000) {
                FLAT.with(|o| {
                    (
                        v.iter().map(|x| o.hpo(*x).expect("pool term")).collect::<HpoGroup>(),
                        "FromIterator<HpoTerm>",
                    )
                })
            } else {
                (HpoGroup::from(v.to_vec()), "From<Vec<u32>>")
            }
        }
        _ => {
            let mut g = HpoGroup::new();
            for x in v.iter().rev() {
                g.insert(*x);
            }
            (g, "new+insert-reversed")
        }
    }
}

fn check_pair(a: &[u32], b: &[u32], id: u32, ctor: u8, stats: &mut Stats) -> CheckResult {
    let sa: BTreeSet<u32> = a.iter().copied().collect();
    let sb: BTreeSet<u32> = b.iter().copied().collect();
    let (ga, na) = construct(a, ctor);
    let (gb, nb) = construct(b, ctor / 7);
    stats.count(&format!("ctor:{na}"), 1);
    stats.count(&format!("ctor:{nb}"), 1);
    well_formed(&ga, &sa, "constructor")?;
    well_formed(&gb, &sb, "constructor")?;
    let un: BTreeSet<u32> = sa.union(&sb).copied().collect();
    let inter: BTreeSet<u32> = sa.intersection(&sb).copied().collect();
    stats.eval(12);
    well_formed(&(&ga | &gb), &un, "bitor(&,&)")?;
    well_formed(&(&gb | &ga), &un, "bitor(&,&)")?;
    well_formed(&(ga.clone() | gb.clone()), &un, "bitor(owned,owned)")?;
    well_formed(&(ga.clone() | &gb), &un, "bitor(owned,&)")?;
    well_formed(&(&ga & &gb), &inter, "bitand(&,&)")?;
    well_formed(&(&gb & &ga), &inter, "bitand(&,&)")?;
    well_formed(&(ga.clone() & gb.clone()), &inter, "bitand(owned,owned)")?;
    well_formed(&(ga.clone() & &gb), &inter, "bitand(owned,&)")?;
    // the same object on both sides
    well_formed(&(&ga | &ga), &sa, "bitor(same-object)")?;
    well_formed(&(&ga & &ga), &sa, "bitand(same-object)")?;
    well_formed(&(ga.clone() | &ga), &sa, "bitor(owned,same)")?;
    let mut plus = sa.clone();
    plus.insert(id);
    let tid = HpoTermId::from_u32(id);
    well_formed(&(&ga + tid), &plus, "add(&,id)")?;
    well_formed(&(ga.clone() + tid), &plus, "add(owned,id)")?;
    well_formed(&(&ga | tid), &plus, "bitor(&,id)")?;
    // operands are untouched
    well_formed(&ga, &sa, "operand-after-ops")?;
    // as_bytes: big-endian ids in ascending order
    let bytes = ga.as_bytes();
    let want: Vec<u8> = sa.iter().flat_map(|x| x.to_be_bytes()).collect();
    ensure!(bytes == want, "group/as_bytes", "as_bytes differs for {sa:?}");
    if sa.is_empty() || sb.is_empty() {
        stats.label("pair:empty-operand");
    }
    if !sa.is_empty() && !sb.is_empty() && inter.is_empty() {
        stats.label("pair:disjoint");
    }
    if sa == sb && !sa.is_empty() {
        stats.label("pair:equal");
    }
    if sa != sb && (sa.is_subset(&sb) || sb.is_subset(&sa)) && !inter.is_empty() {
        stats.label("pair:nested");
    }
    let nontrivial = sa.len() > 30
        || sb.len() > 30
        || (sa.len() == sb.len() && sa != sb && !sa.is_empty())
        || (!inter.is_empty() && inter.len() < sa.len() && inter.len() < sb.len());
    if sa.len() > 30 || sb.len() > 30 {
        stats.label("pair:operand>30");
    }
    if sa.len() == sb.len() && sa != sb {
        stats.label("pair:equal-length");
    }
    if !sa.is_empty() && !sb.is_empty() && (sa.len() * 4 < sb.len() || sb.len() * 4 < sa.len()) && !sa.is_subset(&sb) && !sb.is_subset(&sa) {
        stats.label("pair:unbalanced-not-nested");
    }
    {
        let (small, large) = if sa.len() < sb.len() { (&sa, &sb) } else { (&sb, &sa) };
        if small.len() >= 2 && small.len() * 32 < large.len() && !inter.is_empty() && inter.len() < small.len() {
            stats.label("pair:few-ids-vs-65+-partly-contained");
        }
    }
    {
        // a heap-stored run of consecutive ids with exactly one hole, and the other operand holds the hole
        let (small, large) = if sa.len() < sb.len() { (&sa, &sb) } else { (&sb, &sa) };
        if large.len() > 30 {
            let (lo, hi) = (*large.iter().next().unwrap(), *large.iter().next_back().unwrap());
            if (hi - lo) as usize == large.len() && small.iter().any(|x| *x > lo && *x < hi && !large.contains(x)) {
                stats.label("pair:run-with-one-hole-vs-the-hole");
            }
        }
    }
    if nontrivial {
        stats.label("nontrivial");
        stats.nontrivial(hash_json(&(a, b, id)));
        stats.sample(|| json!({"a": sa, "b": sb, "id": id, "union_len": un.len(), "intersection": inter}));
    }
    Ok(())
}

fn ids(g: &HpoGroup) -> BTreeSet<u32> {
    g.iter().map(|i| i.as_u32()).collect()
}

/// Facts with obsolete flags or replacements go through the binary format (the Builder API cannot set them);
/// the hierarchy of a flagged term is a fact like any other, and so are its ancestor queries.
fn build_terms(f: &Facts) -> Result<hpo::Ontology, String> {
    if f.terms.iter().any(|t| t.obsolete || t.replacement.is_some()) {
        crate::build::via_binary(f, 3)
    } else {
        via_builder(f, Finish::Minimal)
    }
}

fn check_terms(f: &Facts, stats: &mut Stats) -> CheckResult {
    let ont = match build_terms(f) {
        Ok(o) => o,
        Err(e) => return fail("construct/builder", e),
    };
    if f.terms.iter().any(|t| t.obsolete) && !f.edges.is_empty() {
        stats.label("terms:obsolete-terms-in-the-hierarchy");
    }
    let m = Model::new(f);
    for a in &m.ids {
        let ta = ont.hpo(*a).unwrap();
        for b in &m.ids {
            let tb = ont.hpo(*b).unwrap();
            stats.eval(8);
            let aa = &m.anc[m.i(*a)];
            let ab = &m.anc[m.i(*b)];
            let common: BTreeSet<u32> = aa.intersection(ab).copied().collect();
            let union: BTreeSet<u32> = aa.union(ab).copied().collect();
            let all_common: BTreeSet<u32> = m.anc_self(*a).intersection(&m.anc_self(*b)).copied().collect();
            // pinned convention (DESIGN section 3): the union variants do not add the two terms
            let all_union = union.clone();
            let r = guarded(|| -> CheckResult {
                well_formed(&ta.common_ancestor_ids(&tb), &common, "common_ancestor_ids")?;
                well_formed(&ta.union_ancestor_ids(&tb), &union, "union_ancestor_ids")?;
                well_formed(&ta.all_common_ancestor_ids(&tb), &all_common, "all_common_ancestor_ids")?;
                well_formed(&ta.all_union_ancestor_ids(&tb), &all_union, "all_union_ancestor_ids")?;
                for (nm, got, want) in [
                    ("common_ancestors", ta.common_ancestors(&tb).iter().map(|t| t.id().as_u32()).collect::<Vec<u32>>(), &common),
                    ("union_ancestors", ta.union_ancestors(&tb).iter().map(|t| t.id().as_u32()).collect::<Vec<u32>>(), &union),
                    ("all_common_ancestors", ta.all_common_ancestors(&tb).iter().map(|t| t.id().as_u32()).collect::<Vec<u32>>(), &all_common),
                    ("all_union_ancestors", ta.all_union_ancestors(&tb).iter().map(|t| t.id().as_u32()).collect::<Vec<u32>>(), &all_union),
                ] {
                    let want: Vec<u32> = want.iter().copied().collect();
                    ensure!(got == want, format!("ancestors/{nm}"), "{a}.{nm}({b}) = {got:?}, expected {want:?}");
                }
                let c = ta.all_common_ancestors(&tb);
                ensure!(c.len() == all_common.len() && c.is_empty() == all_common.is_empty(), "ancestors/combined-len", "Combined len {} vs {}", c.len(), all_common.len());
                Ok(())
            });
            match r {
                Ok(r) => r?,
                Err(p) => return fail("ancestors/panic", format!("ancestor query on ({a},{b}) panicked: {p}")),
            }
            let _ = ids;
        }
    }
    // ---- the two terms may belong to different ontologies: the id-level queries are still the set
    // algebra of their two ancestor sets (second ontology: the same terms, every other link dropped)
    // (third ontology: the same terms with every link reversed, so that a term's ancestors here are its
    // descendants there)
    let mut dropped = f.clone();
    let mut k = 0;
    dropped.edges.retain(|_| {
        k += 1;
        k % 2 == 0
    });
    let mut reversed = f.clone();
    for e in reversed.edges.iter_mut() {
        *e = (e.1, e.0);
    }
    for (f2, label) in [(dropped, "terms:pairs-across-two-ontologies"), (reversed, "terms:pairs-across-two-ontologies-with-reversed-hierarchy")] {
        if f2.edges == f.edges {
            continue;
        }
        let ont2 = match build_terms(&f2) {
            Ok(o) => o,
            Err(e) => return fail("construct/builder", e),
        };
        let m2 = Model::new(&f2);
        for a in &m.ids {
            let ta = ont.hpo(*a).unwrap();
            for b in &m2.ids {
                let tb = ont2.hpo(*b).unwrap();
                stats.eval(4);
                let aa = &m.anc[m.i(*a)];
                let ab = &m2.anc[m2.i(*b)];
                let common: BTreeSet<u32> = aa.intersection(ab).copied().collect();
                let union: BTreeSet<u32> = aa.union(ab).copied().collect();
                let all_common: BTreeSet<u32> = m.anc_self(*a).intersection(&m2.anc_self(*b)).copied().collect();
                let r = guarded(|| -> CheckResult {
                    well_formed(&ta.common_ancestor_ids(&tb), &common, "common_ancestor_ids(other-ontology)")?;
                    well_formed(&ta.union_ancestor_ids(&tb), &union, "union_ancestor_ids(other-ontology)")?;
                    well_formed(&ta.all_common_ancestor_ids(&tb), &all_common, "all_common_ancestor_ids(other-ontology)")?;
                    well_formed(&ta.all_union_ancestor_ids(&tb), &union, "all_union_ancestor_ids(other-ontology)")?;
                    Ok(())
                });
                match r {
                    Ok(r) => r?,
                    Err(p) => return fail("ancestors/panic", format!("ancestor query on ({a},{b}) across two ontologies panicked: {p}")),
                }
            }
        }
        stats.label(label);
    }
    if m.has_diamond() {
        stats.label("terms:diamond");
        stats.nontrivial(f.canonical_hash());
    }
    stats.label("terms-case");
    Ok(())
}

pub fn check(c: &Case, stats: &mut Stats) -> CheckResult {
    match c {
        Case::Ops { ops } => {
            stats.label("ops-case");
            check_ops(ops, stats)
        }
        Case::Pair { a, b, id, ctor } => {
            stats.label("pair-case");
            check_pair(a, b, *id, *ctor, stats)
        }
        Case::Terms { facts } => check_terms(facts, stats),
    }
}

/// A few ids against a long run (65 - 260, 500 - 700 or 1000 - 1100 ids, beyond the pool): some of the few are members of the
/// run, some fall between its elements, below or above it.
fn tiny_vs_large_strategy() -> impl Strategy<Value = Case> {
    (prop_oneof![3 => 65usize..=260, 1 => 500usize..=700, 1 => 1000usize..=1100], 0u32..5000, 1u32..4, vec((any::<u16>(), any::<bool>()), 1..5), any::<u16>(), (0u8..6, 0u8..6), any::<bool>()).prop_map(|(n, start, step, few, idp, (c1, c2), swap)| {
        let large: Vec<u32> = (0..n as u32).map(|i| start + i * step * 2).collect();
        let small: Vec<u32> = few
            .iter()
            .map(|(p, member)| {
                let base = large[pick(*p, n)];
                if *member { base } else { base + 1 }
            })
            .collect();
        // constructors that do not need terms of the fixture
        let ctor = [0u8, 1, 2, 3, 4, 6][c1 as usize] + 7 * [0u8, 1, 2, 3, 4, 6][c2 as usize];
        let id = large[pick(idp, n)] + u32::from(idp % 2);
        if swap { Case::Pair { a: small, b: large, id, ctor } } else { Case::Pair { a: large, b: small, id, ctor } }
    })
}

/// A run of consecutive ids (20 - 120 of them, so both inline and heap-stored groups) with 0 - 3 holes, against a
/// few ids: the holes themselves, members of the run, and ids just below / above it.
fn run_with_holes_strategy() -> impl Strategy<Value = Case> {
    (20usize..=120, prop_oneof![2 => 0u32..300, 1 => 9_999_800u32..9_999_870], vec(any::<u16>(), 0..=3), vec((any::<u16>(), 0u8..4), 1..6), any::<u16>(), (0u8..6, 0u8..6), any::<bool>()).prop_map(
        |(n, start, hole_picks, few, idp, (c1, c2), swap)| {
            let holes: Vec<u32> = hole_picks.iter().map(|p| start + 1 + pick(*p, n - 2) as u32).collect();
            let large: Vec<u32> = (0..n as u32).map(|i| start + i).filter(|x| !holes.contains(x)).collect();
            let small: Vec<u32> = few
                .iter()
                .map(|(p, what)| match what {
                    0 if !holes.is_empty() => holes[pick(*p, holes.len())],
                    1 => start.saturating_sub(1 + u32::from(*p % 3)),
                    2 => start + n as u32 + u32::from(*p % 3),
                    _ => large[pick(*p, large.len())],
                })
                .collect();
            let ctor = [0u8, 1, 2, 3, 4, 6][c1 as usize] + 7 * [0u8, 1, 2, 3, 4, 6][c2 as usize];
            let id = if idp % 2 == 0 && !holes.is_empty() { holes[0] } else { large[pick(idp, large.len())] };
            if swap {
                Case::Pair { a: small, b: large, id, ctor }
            } else {
                Case::Pair { a: large, b: small, id, ctor }
            }
        },
    )
}

fn ops_strategy() -> impl Strategy<Value = Case> {
    // pool width chosen per case so that both small and >30 element sets arise
    (prop_oneof![Just(8usize), Just(40), Just(POOL_LEN)], vec((0u8..10, any::<u16>()), 0..120)).prop_map(|(width, raw)| {
        let ops = raw
            .into_iter()
            .map(|(k, p)| match k {
                0..=5 => Op::Insert(pool(pick(p, width))),
                6 => Op::Contains(pool(pick(p, width))),
                7 => Op::Get(pick(p, width + 2)),
                8 if p % 16 == 0 => Op::Clear,
                _ => Op::Snapshot,
            })
            .collect();
        Case::Ops { ops }
    })
}

fn pair_strategy() -> impl Strategy<Value = Case> {
    (
        vec(any::<u16>(), 0..70),
        vec(any::<(bool, bool)>(), 70),
        0u8..7,
        any::<u16>(),
        any::<u8>(),
    )
        .prop_map(|(base, masks, mode, idp, ctor)| {
            let base: Vec<u32> = base.iter().map(|p| pool(pick(*p, POOL_LEN))).collect();
            let mut a = Vec::new();
            let mut b = Vec::new();
            for (i, v) in base.iter().enumerate() {
                let (ma, mb) = masks[i % masks.len()];
                match mode {
                    // overlap
                    0 => {
                        if ma { a.push(*v) }
                        if mb { b.push(*v) }
                        if !ma && !mb { a.push(*v); b.push(*v) }
                    }
                    // disjoint
                    1 => if ma { a.push(*v) } else { b.push(*v) },
                    // nested
                    2 => { a.push(*v); if mb { b.push(*v) } }
                    // equal
                    3 => { a.push(*v); b.push(*v) }
                    // one empty
                    4 => a.push(*v),
                    // unbalanced: a few ids against many, partially overlapping
                    6 => {
                        if i % 9 == 0 && ma { a.push(*v) }
                        if mb || i % 9 != 0 { b.push(*v) }
                    }
                    // equal length (fixed up below)
                    _ => {
                        if ma { a.push(*v) } else { b.push(*v) }
                        if ma && mb { b.push(*v) }
                    }
                }
            }
            if mode == 1 {
                let sa: BTreeSet<u32> = a.iter().copied().collect();
                b.retain(|x| !sa.contains(x));
            }
            if mode == 5 {
                let mut sa: Vec<u32> = a.iter().copied().collect::<BTreeSet<u32>>().into_iter().collect();
                let mut sb: Vec<u32> = b.iter().copied().collect::<BTreeSet<u32>>().into_iter().collect();
                let n = sa.len().min(sb.len());
                sa.truncate(n);
                sb.truncate(n);
                a = sa;
                b = sb;
            }
            if ctor % 2 == 1 {
                std::mem::swap(&mut a, &mut b);
            }
            Case::Pair { a, b, id: pool(pick(idp, POOL_LEN)), ctor }
        })
}

fn strategy(tier: Tier) -> BoxedStrategy<Case> {
    let max = if tier == Tier::Quick { 14 } else { 40 };
    let cfg = GenCfg::small().terms(1, max).recs(3);
    prop_oneof![
        3 => ops_strategy(),
        5 => pair_strategy(),
        1 => tiny_vs_large_strategy(),
        1 => run_with_holes_strategy(),
        2 => gen::facts(cfg.clone()).prop_map(|facts| Case::Terms { facts }),
        1 => gen::facts(cfg.standard().with_flags(false)).prop_map(|facts| Case::Terms { facts }),
    ]
    .boxed()
}

impl Property for C12 {
    fn id(&self) -> &'static str {
        "C12"
    }
    fn rule(&self) -> String {
        "Generated: (a) operation sequences over one HpoGroup (insert with return value, contains, get, clear, full well-formedness snapshot) with ids from a 96-entry pool (dense block, neighbours, 0, 9_999_999, 10^7, u32::MAX), up to 120 ops, sizes crossing the inline limit 30; (b) pairs of id multisets - also a run of 20-120 consecutive ids with 0-3 holes against a few ids among which are the holes - in the classes overlap / disjoint / nested / equal / one empty / equal length / unbalanced (one operand more than 4x longer, not nested), built through 7 constructors (From<Vec<u32>>, From<Vec<HpoTermId>>, From<HashSet>, FromIterator<HpoTermId>, FromIterator<HpoTerm>, with_capacity+insert, reversed insert) and pushed through every ownership variant of |, &, + id, | id; (c) all ordered pairs of terms of generated DAGs through the 8 ancestor-query methods, and the id-level ones for pairs whose terms come from two ontologies over the same ids (every other link dropped; every link reversed). Oracle: BTreeSet<u32>; every result must iterate strictly ascending, agree on len/is_empty/get/contains (also for neighbours of each element). evaluations = ops + operator results + ancestor queries. Non-trivial = an operand longer than 30, equal-length different operands, or a non-empty intersection smaller than both operands (pairs); op sequence reaching length > 30; DAG with a diamond. Distinct by hash of the case.".into()
    }
    fn assumptions(&self) -> Vec<String> {
        vec![
            "all_union_ancestor_ids / all_union_ancestors return A(a) ∪ A(b) without adding the two terms (what the four doctests on these methods assert); all_common_* include the terms".into(),
        ]
    }
    fn cases(&self, tier: Tier) -> u64 {
        match tier {
            Tier::Quick => 400_000,
            Tier::Thorough => 4_000_000,
        }
    }
    fn required_labels(&self, _tier: Tier) -> Vec<&'static str> {
        vec!["nontrivial", "ops:len>30", "pair:operand>30", "pair:equal-length", "pair:unbalanced-not-nested", "pair:disjoint", "pair:nested", "pair:equal", "pair:empty-operand", "terms:diamond", "group>255-ids", "group>65535-ids", "pair:few-ids-vs-65+-partly-contained", "terms:pairs-across-two-ontologies", "terms:pairs-across-two-ontologies-with-reversed-hierarchy", "pair:run-with-one-hole-vs-the-hole", "terms:obsolete-terms-in-the-hierarchy"]
    }
    fn run_generated(&self, tier: Tier, seed: u64, n: u64, stats: &mut Stats) -> Option<(Value, Failure)> {
        run_typed(strategy(tier), seed, n, stats, check)
    }
    fn replay(&self, case: &Value, stats: &mut Stats) -> Result<CheckResult, String> {
        if let Some(b) = case.get("big_groups") {
            let v: (u32, u32) = serde_json::from_value(b.clone()).map_err(|e| e.to_string())?;
            stats.cases += 1;
            return Ok(check_big_groups(v.0, v.1, stats));
        }
        replay_typed::<Case, _>(case, stats, check)
    }
    fn extra(&self, tier: Tier, _seed: u64, stats: &mut Stats) -> Vec<(Value, Failure)> {
        let mut sizes = vec![(255u32, 256u32), (256, 257), (300, 31), (511, 512), (513, 600), (1023, 1025), (2047, 2049), (2048, 5000), (4095, 4097), (65_535, 65_536), (65_537, 300), (70_000, 66_000)];
        if tier == Tier::Thorough {
            sizes.extend([(1_000_000, 70_000), (4096, 4097), (131_072, 131_071)]);
        }
        let mut out = Vec::new();
        for (a, b) in sizes {
            stats.cases += 1;
            if let Err(f) = check_big_groups(a, b, stats) {
                out.push((json!({"big_groups": (a, b)}), f));
            }
        }
        out
    }
}
