//! C08 — decoder honours layouts v1-v3 and never accepts truncated or extended files.

use crate::build::*;
use crate::gen::{self, GenCfg, NameMode};
use crate::model::*;
use crate::observe::*;
use crate::runner::*;
use crate::ensure;
use proptest::collection::vec;
use proptest::prelude::*;
use serde::{Deserialize, Serialize};
use serde_json::{json, Value};

pub struct C08;

#[derive(Clone, Debug, Serialize, Deserialize, PartialEq)]
pub struct Case {
    pub facts: Facts,
    pub version: u8,
    /// generated garbage appended to the valid file (1-16 bytes)
    pub suffix: Vec<u8>,
    /// add 300 terms with 200-byte names and records with more than 256 terms: sections
    /// longer than 65_535 bytes; truncation offsets are then sampled, not enumerated
    #[serde(default)]
    pub big: bool,
}

/// `facts` plus 300 terms below HP:0000118 with long names, one gene and one OMIM disease
/// annotated to all of them
pub fn inflate(f: &Facts) -> Facts {
    let mut g = f.clone();
    let used: std::collections::BTreeSet<u32> = g.terms.iter().map(|t| t.id).collect();
    let mut id = 2_000_000u32;
    let mut added = Vec::new();
    while added.len() < 300 {
        if !used.contains(&id) {
            g.terms.push(TermFact { id, name: format!("{id:0>200}"), obsolete: false, replacement: None });
            g.edges.push((id, 118));
            added.push(id);
        }
        id += 7;
    }
    g.recs[GENE].push(RecFact { id: 4_000_000, name: "BIG".into(), terms: added.clone() });
    // disease names have a 4-byte length field: one OMIM and one ORPHA name beyond a 16-bit length
    g.recs[OMIM].push(RecFact { id: 4_000_000, name: format!("big disease {}", "x".repeat(65_536)), terms: added.clone() });
    g.recs[ORPHA].push(RecFact { id: 4_000_001, name: format!("{}é", "y".repeat(70_000)), terms: added.into_iter().take(2).collect() });
    g.ann_calls = g.canonical_ann_calls();
    g
}

fn accepted(bytes: &[u8], stats: &mut Stats) -> bool {
    stats.eval(1);
    match decode(bytes) {
        Decoded::Ok(_) => true,
        Decoded::Err(_) => {
            stats.count("rejected:error", 1);
            false
        }
        Decoded::Panic(_) => {
            stats.count("rejected:panic", 1);
            false
        }
    }
}

/// A file with more term records than a 16-bit index addresses (see `bulk_facts`): decoded and
/// compared term by term with the facts; cuts at the section boundaries and near the end, one
/// appended byte.
pub fn check_bulk(n: u32, mult: u32, v: u8, style: u8, stats: &mut Stats) -> CheckResult {
    check_big_file(super::common::bulk_facts(n, mult, 25), n, v, style, stats)
}

/// Other big shapes through the same check: "fanin" = one term with `n` direct parents, "deep" = an is_a chain
/// of `n` links whose term records are written deepest first.
pub fn check_shape(shape: &str, n: u32, mult: u32, v: u8, style: u8, stats: &mut Stats) -> CheckResult {
    let facts = match shape {
        "fanin" => super::common::fanin_facts(n, mult, 9),
        "deep" => super::common::deep_facts(n, mult, 9),
        _ => return fail("harness/bad-case", "unknown shape"),
    };
    let r = check_big_file(facts, n, v, style, stats);
    if r.is_ok() {
        stats.label(if shape == "fanin" { "direct-parents>255" } else { "depth>255-deepest-record-first" });
    }
    r
}

fn check_big_file(facts: Facts, n: u32, v: u8, style: u8, stats: &mut Stats) -> CheckResult {
    ensure!((1..=3).contains(&v), "harness/bad-case", "version must be 1..=3");
    let expected = restrict_to_version(&facts, v);
    let bytes = encode_styled(&facts, v, style);
    let ont = match decode(&bytes) {
        Decoded::Ok(o) => *o,
        Decoded::Err(e) => return fail(format!("valid-file-rejected/v{v}/bulk"), format!("from_bytes of a well-formed v{v} file with {n} terms = Err({e}); {} bytes", bytes.len())),
        Decoded::Panic(p) => return fail(format!("valid-file-panics/v{v}/bulk"), format!("from_bytes of a well-formed v{v} file with {n} terms panicked: {p}")),
    };
    stats.eval(1);
    let model = Model::new(&expected);
    let snap = guarded(|| observe(&ont)).map_err(|p| Failure { signature: "observe-panic/bulk".into(), message: p })?;
    let e = Expect { model: &model, defaults: true, term_name: &ident, rec_name: &ident_rec };
    let diffs = diff_model(&snap, &e, &[Group::Basic, Group::Closure, Group::Annot, Group::Ic, Group::Cats, Group::Problems]);
    if let Some(d) = diffs.first() {
        let kind: String = d.what.split(' ').next().unwrap_or("").chars().take(24).collect();
        return fail(
            format!("decoded-differs/v{v}/bulk/{kind}"),
            format!("v{v} file with {n} terms decodes to something else than it describes: {}", diffs.iter().take(5).map(|d| d.what.clone()).collect::<Vec<_>>().join(" | ")),
        );
    }
    drop(ont);
    let mut cuts: std::collections::BTreeSet<usize> = std::collections::BTreeSet::new();
    for o in section_offsets(&bytes, v) {
        cuts.insert(o);
        cuts.insert(o + 4);
    }
    for d in [1usize, 2, 4, 5, 8] {
        cuts.insert(bytes.len() - d);
    }
    for cut in cuts.into_iter().filter(|c| *c < bytes.len()) {
        if accepted(&bytes[..cut], stats) {
            return fail(format!("truncated-file-accepted/v{v}/bulk"), format!("the first {cut} of {} bytes of a v{v} file with {n} terms are accepted as an ontology", bytes.len()));
        }
    }
    let mut ext = bytes.clone();
    ext.push(0);
    if accepted(&ext, stats) {
        return fail(format!("extended-file-accepted/v{v}/bulk"), format!("a v{v} file with {n} terms followed by one more byte is accepted"));
    }
    stats.label("bulk>65535-terms");
    Ok(())
}

pub fn check(c: &Case, stats: &mut Stats) -> CheckResult {
    let v = c.version;
    ensure!((1..=3).contains(&v), "harness/bad-case", "version must be 1..=3");
    let inflated;
    let facts: &Facts = if c.big {
        inflated = inflate(&c.facts);
        &inflated
    } else {
        &c.facts
    };
    let expected = restrict_to_version(facts, v);
    // writer style of the parent / term-list records (0 = what as_bytes writes), see `encode_styled`
    let style = (c.suffix.len() % 4) as u8;
    let bytes = encode_styled(facts, v, style);
    stats.count(&format!("writer-style-{style}"), 1);
    // ---- Oracle A: the file decodes to exactly the ontology it describes
    let ont = match decode(&bytes) {
        Decoded::Ok(o) => *o,
        Decoded::Err(e) => return fail(format!("valid-file-rejected/v{v}"), format!("from_bytes of a well-formed v{v} file = Err({e}); {} bytes", bytes.len())),
        Decoded::Panic(p) => return fail(format!("valid-file-panics/v{v}"), format!("from_bytes of a well-formed v{v} file panicked: {p}")),
    };
    stats.eval(1);
    let model = Model::new(&expected);
    let snap = guarded(|| observe(&ont)).map_err(|p| Failure { signature: "observe-panic".into(), message: p })?;
    let e = Expect { model: &model, defaults: true, term_name: &ident, rec_name: &ident_rec };
    let diffs = diff_model(&snap, &e, &[Group::Basic, Group::Closure, Group::Annot, Group::Ic, Group::Cats, Group::Problems]);
    if let Some(d) = diffs.first() {
        let kind: String = d.what.split(' ').next().unwrap_or("").chars().take(24).collect();
        return fail(
            format!("decoded-differs/v{v}/{kind}"),
            format!("v{v} file decodes to something else than it describes: {}", diffs.iter().take(5).map(|d| d.what.clone()).collect::<Vec<_>>().join(" | ")),
        );
    }
    // ---- Oracle B: every proper prefix is rejected
    let cuts: Vec<usize> = if bytes.len() <= 6000 {
        (0..bytes.len()).collect()
    } else {
        // large file: every section boundary +-4, the last 64 offsets, 256 evenly spread offsets
        let mut v: std::collections::BTreeSet<usize> = std::collections::BTreeSet::new();
        for o in section_offsets(&bytes, c.version) {
            for d in 0..9usize {
                v.insert((o + d).saturating_sub(4));
            }
        }
        for d in 1..=64 {
            v.insert(bytes.len() - d);
        }
        for i in 0..256 {
            v.insert(i * bytes.len() / 256);
        }
        v.into_iter().filter(|x| *x < bytes.len()).collect()
    };
    if bytes.len() > 65_535 {
        stats.label("section>65535-bytes");
    }
    for cut in cuts.iter().copied() {
        if accepted(&bytes[..cut], stats) {
            let offs = section_offsets(&bytes, v);
            return fail(
                format!("truncated-file-accepted/v{v}"),
                format!("the first {cut} of {} bytes of a v{v} file are accepted as an ontology (section headers at {offs:?})", bytes.len()),
            );
        }
    }
    stats.count("truncations", cuts.len() as u64);
    // ---- extensions
    let offs = section_offsets(&bytes, v);
    let last_section = bytes[*offs.last().unwrap()..].to_vec();
    let mut suffixes: Vec<(&str, Vec<u8>)> = vec![
        ("byte-00", vec![0]),
        ("byte-01", vec![1]),
        ("byte-ff", vec![0xff]),
        ("empty-section", vec![0, 0, 0, 0]),
        ("two-empty-sections", vec![0; 8]),
        ("copy-of-last-section", last_section),
        ("generated", c.suffix.clone()),
    ];
    // a complete, well-formed extra record section
    let extra = {
        let mut f = Facts::default();
        f.recs[OMIM].push(RecFact { id: 77, name: "x".into(), terms: vec![] });
        let e = encode(&f, 2);
        e[section_offsets(&e, 2)[3]..].to_vec()
    };
    suffixes.push(("well-formed-disease-section", extra));
    for (name, sfx) in &suffixes {
        if sfx.is_empty() {
            continue;
        }
        let mut b = bytes.clone();
        b.extend_from_slice(sfx);
        if accepted(&b, stats) {
            return fail(format!("extended-file-accepted/v{v}/{name}"), format!("a v{v} file of {} bytes followed by {} extra bytes ({name}) is accepted", bytes.len(), sfx.len()));
        }
    }
    stats.count("extensions", suffixes.len() as u64);
    // ---- unsupported versions: the HPO magic followed by any version byte other
    //      than 2 and 3, in front of every payload layout (the file's own
    //      sections with and without a release-version field)
    let body: &[u8] = if v >= 2 { &bytes[8..] } else { &bytes[..] };
    let mut candidates: Vec<Vec<u8>> = Vec::new();
    for ver in 0..=255u8 {
        if ver == 2 || ver == 3 {
            continue;
        }
        let mut with_date = vec![b'H', b'P', b'O', ver];
        with_date.extend_from_slice(&facts.version.0.to_be_bytes());
        with_date.push(facts.version.1);
        with_date.push(facts.version.2);
        with_date.extend_from_slice(body);
        let mut without_date = vec![b'H', b'P', b'O', ver];
        without_date.extend_from_slice(body);
        candidates.push(with_date);
        candidates.push(without_date);
    }
    for b in &candidates {
        stats.eval(1);
        let ver = b[3];
        match decode(b) {
            Decoded::Err(_) => {}
            Decoded::Ok(_) => return fail("unsupported-version-accepted", format!("a file announcing version {ver} (payload laid out as v{v}{}) is accepted", if b.len() == body.len() + 4 { ", no release-version field" } else { "" })),
            Decoded::Panic(p) => return fail("unsupported-version-panics", format!("file announcing version {ver} panics instead of returning an error: {p}")),
        }
    }
    stats.count("version-bytes", candidates.len() as u64);
    stats.label(match v {
        1 => "v1",
        2 => "v2",
        _ => "v3",
    });
    let n_sections = if v == 3 { 3 } else { 2 };
    let full = (0..n_sections).all(|k| !expected.recs[k].is_empty()) && !expected.edges.is_empty();
    if expected.terms.iter().any(|t| t.obsolete || t.replacement.is_some()) {
        stats.label("flags");
    }
    if expected.terms.iter().any(|t| t.name.len() >= 247) {
        stats.label("term-name>=247-bytes");
    }
    if (0..n_sections).any(|k| expected.recs[k].iter().any(|r| r.name.len() >= 247)) {
        stats.label("record-name>=247-bytes");
    }
    if full {
        stats.label("nontrivial");
        let mut h = Fnv::new();
        h.u64(expected.canonical_hash());
        h.u64(u64::from(v));
        stats.nontrivial(h.finish());
        stats.sample(|| json!({"version": v, "file_bytes": bytes.len(), "section_headers_at": offs, "terms": expected.terms.len(),
            "records": [expected.recs[0].len(), expected.recs[1].len(), expected.recs[2].len()], "truncations_tried": bytes.len(), "hex_prefix": bytes.iter().take(24).map(|b| format!("{b:02x}")).collect::<String>()}));
    }
    Ok(())
}

fn strategy(tier: Tier) -> BoxedStrategy<Case> {
    let (maxt, maxr) = if tier == Tier::Quick { (14, 4) } else { (30, 6) };
    let cfg = GenCfg::small().terms(2, maxt).recs(maxr).standard().with_flags(true).names(NameMode::Capped);
    (gen::facts(cfg), 1u8..=3, vec(any::<u8>(), 1..=16), proptest::bool::weighted(0.01))
        .prop_map(|(mut facts, version, suffix, big)| {
            // keep files small (the truncation sweep decodes every prefix): names are cut to 40
            // bytes, except that one case in three keeps a single name at its full length (<= 255)
            let mut keep_term = suffix[0] % 6 == 0;
            let mut keep_rec = suffix[0] % 6 == 1;
            for t in facts.terms.iter_mut() {
                if t.name.len() > 40 {
                    if keep_term {
                        keep_term = false;
                        continue;
                    }
                    t.name = char_prefix(&t.name, 40).to_string();
                }
            }
            for k in 0..3 {
                for r in facts.recs[k].iter_mut() {
                    if r.name.len() > 40 {
                        if keep_rec {
                            keep_rec = false;
                            continue;
                        }
                        r.name = char_prefix(&r.name, 40).to_string();
                    }
                }
            }
            Case { facts, version, suffix, big }
        })
        .boxed()
}

impl Property for C08 {
    fn id(&self) -> &'static str {
        "C08"
    }
    fn level(&self) -> &'static str {
        "fault_enumeration"
    }
    fn rule(&self) -> String {
        "Generated: facts restricted to what format version v in {1,2,3} can express, encoded by an independent encoder written from the documented layout (not as_bytes), records in generated order inside each section. Oracle A: from_bytes(file) is Ok and its complete read-API snapshot equals the reference model of the facts (v1: version 0000-00-00, no flags/replacements/ORPHA; v2: no ORPHA). One file in 100 is inflated by 300 terms with 200-byte names and two records annotated to all of them (sections longer than 65 535 bytes, records with more than 256 terms); for those files the truncation offsets are sampled (every section boundary +-4, the last 64 offsets, 256 evenly spread ones). Oracle B (fault enumeration per file): EVERY truncation offset 0..len-1 is decoded and must be rejected (Err or panic, never Ok); 8 extensions (bytes 00/01/ff, an empty section, two empty sections, a copy of the last section, a well-formed one-record disease section, 1-16 generated bytes) must be rejected; with the HPO magic every version byte other than 2 and 3, in front of the file's sections with and without a release-version field (508 variants per file), must give Err (not a panic, not an ontology). evaluations = decodes. Non-trivial = file with >=1 record in every annotation section it has and >=1 parent link; distinct = hash(canonical facts, version).".into()
    }
    fn assumptions(&self) -> Vec<String> {
        vec![
            "rejection = Err or panic inside from_bytes (documented: 'can panic if the provided data is incorrectly formatted')".into(),
            "files kept below ~2 kB (names cut to 40 bytes) so that every prefix can be decoded".into(),
        ]
    }
    fn cases(&self, tier: Tier) -> u64 {
        match tier {
            Tier::Quick => 4_800,
            Tier::Thorough => 64_000,
        }
    }
    fn required_labels(&self, _tier: Tier) -> Vec<&'static str> {
        vec!["nontrivial", "v1", "v2", "v3", "flags", "section>65535-bytes", "term-name>=247-bytes", "record-name>=247-bytes", "bulk>65535-terms", "direct-parents>255", "depth>255-deepest-record-first"]
    }
    fn run_generated(&self, tier: Tier, seed: u64, n: u64, stats: &mut Stats) -> Option<(Value, Failure)> {
        run_typed(strategy(tier), seed, n, stats, check)
    }
    fn replay(&self, case: &Value, stats: &mut Stats) -> Result<CheckResult, String> {
        if let Some(b) = case.get("bulk") {
            let v: (u32, u32, u8, u8) = serde_json::from_value(b.clone()).map_err(|e| e.to_string())?;
            stats.cases += 1;
            return Ok(check_bulk(v.0, v.1, v.2, v.3, stats));
        }
        if let Some(b) = case.get("shape") {
            let v: (String, u32, u32, u8, u8) = serde_json::from_value(b.clone()).map_err(|e| e.to_string())?;
            stats.cases += 1;
            return Ok(check_shape(&v.0, v.1, v.2, v.3, v.4, stats));
        }
        replay_typed::<Case, _>(case, stats, check)
    }
    fn isolated_plans(&self, tier: Tier, seed: u64) -> Vec<Value> {
        let mult = [7919u32, 104_729, 1_299_709][(seed % 3) as usize];
        let mut plans = vec![(65_540u32, mult, 3u8, (seed % 4) as u8), (66_001, mult, 1, ((seed + 1) % 4) as u8)];
        if tier == Tier::Thorough {
            plans.push((70_000, mult, 2, 2));
            plans.push((131_080, mult, 3, 3));
        }
        let mut out: Vec<Value> = plans.into_iter().map(|p| json!({"bulk": p})).collect();
        out.push(json!({"shape": ("fanin", 300u32, mult, 3u8, (seed % 4) as u8)}));
        out.push(json!({"shape": ("deep", 300u32, mult, 2u8, ((seed + 2) % 4) as u8)}));
        if tier == Tier::Thorough {
            out.push(json!({"shape": ("fanin", 66_000u32, mult, 1u8, 1u8)}));
            out.push(json!({"shape": ("deep", 5_000u32, mult, 3u8, 3u8)}));
            out.push(json!({"shape": ("deep", 300u32, mult, 1u8, 0u8)}));
        }
        out
    }
}
