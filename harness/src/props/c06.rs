//! C06 — enrichment reports exact hypergeometric tail probabilities and fold changes.

use crate::build::via_binary;
use crate::exact::{hypergeom_tail, hypergeom_tail_large};
use crate::gen::pick;
use crate::model::*;
use crate::observe::guarded;
use crate::runner::*;
use crate::ensure;
use hpo::annotations::AnnotationId;
use hpo::stats::hypergeom::{gene_enrichment, omim_disease_enrichment, orpha_disease_enrichment};
use hpo::{HpoTerm, Ontology};
use proptest::collection::vec;
use proptest::prelude::*;
use serde::{Deserialize, Serialize};
use serde_json::{json, Value};
use std::collections::{BTreeMap, BTreeSet};

pub struct C06;

pub const N_LEAVES: u32 = 420;
pub const ROOT: u32 = 1;

/// the 420 leaf ids (HP:1 and HP:118 are the root and one inner node, so two leaves are renumbered)
pub fn leaf_ids() -> Vec<u32> {
    (1..=N_LEAVES).map(|i| match i {
        1 => 1000,
        118 => 501,
        x => x,
    })
    .collect()
}

/// the 20 inner nodes: HP:0000118 (phenotype branch) and 19 modifier roots
pub fn inner_ids() -> Vec<u32> {
    (0..20u32).map(|m| if m == 0 { 118 } else { 501 + m }).collect()
}

pub fn all_term_ids() -> Vec<u32> {
    leaf_ids().into_iter().chain(inner_ids()).chain([ROOT]).collect()
}
const KS: [usize; 30] = [
    1, 2, 3, 4, 5, 7, 10, 15, 21, 30, 42, 60, 84, 100, 105, 120, 150, 168, 169, 170, 171, 172, 200, 250, 300, 350, 400, 418, 419, 420,
];

/// The fixed two-level ontology in the standard flavour: root HP:0000001, 20 inner nodes (HP:0000118 and
/// 19 modifier roots 502..=520), 420 leaves (21 below each inner node);
/// 32 records per kind (ids 1..=30, 0 and u32::MAX in every kind, different links per kind),
/// record j annotated to a pseudo-random KS[j]-subset of the leaves.
pub fn fixed_facts() -> Facts {
    let mut f = Facts::default();
    f.terms.push(TermFact { id: ROOT, name: "root".into(), obsolete: false, replacement: None });
    let inner = inner_ids();
    for (m, id) in inner.iter().enumerate() {
        f.terms.push(TermFact { id: *id, name: format!("mid{m}"), obsolete: m == 4, replacement: None });
        f.edges.push((*id, ROOT));
    }
    let leaves_all = leaf_ids();
    for (n, i) in leaves_all.iter().enumerate() {
        let i = *i;
        // every ninth leaf is flagged obsolete (some also name a replacement): the flags must not matter
        f.terms.push(TermFact { id: i, name: format!("leaf{i}"), obsolete: n % 9 == 4, replacement: if n % 27 == 4 { Some(leaves_all[n + 1]) } else { None } });
        f.edges.push((i, inner[n / 21]));
    }
    for k in 0..3 {
        for (j, kk) in KS.iter().enumerate() {
            // deterministic shuffle of the leaves
            let mut leaves: Vec<u32> = leaf_ids();
            let mut x: u64 = 0x2545F4914F6CDD1D ^ ((k as u64) << 32) ^ (j as u64 * 7919);
            for i in (1..leaves.len()).rev() {
                x = x.wrapping_mul(6364136223846793005).wrapping_add(1442695040888963407);
                let r = ((x >> 33) as usize) % (i + 1);
                leaves.swap(i, r);
            }
            leaves.truncate(*kk);
            f.recs[k].push(RecFact { id: j as u32 + 1, name: format!("{}{}", KIND_NAMES[k], j + 1), terms: leaves });
        }
        // two more records per kind under the smallest and the largest id a record can have
        for (id, kk, j) in [(0u32, 9usize, 30u64), (u32::MAX, 77, 31)] {
            let mut leaves: Vec<u32> = leaf_ids();
            let mut x: u64 = 0x2545F4914F6CDD1D ^ ((k as u64) << 32) ^ (j * 7919);
            for i in (1..leaves.len()).rev() {
                x = x.wrapping_mul(6364136223846793005).wrapping_add(1442695040888963407);
                let r = ((x >> 33) as usize) % (i + 1);
                leaves.swap(i, r);
            }
            leaves.truncate(kk);
            f.recs[k].push(RecFact { id, name: format!("{}-id-{id}", KIND_NAMES[k]), terms: leaves });
        }
    }
    f.ann_calls = f.canonical_ann_calls();
    f
}

struct Fixture {
    ont: Ontology,
    model: Model,
    all_ids: Vec<u32>,
}

thread_local! {
    static FIX: Fixture = {
        let f = fixed_facts();
        // loaded from own v3 bytes so that obsolete flags and replacements are present
        let ont = via_binary(&f, 3).expect("fixed ontology");
        let model = Model::new(&f);
        let all_ids = model.ids.clone();
        Fixture { ont, model, all_ids }
    };
}

#[derive(Clone, Debug, Serialize, Deserialize, PartialEq)]
pub enum Case {
    Enrich { background: Vec<u32>, sample: Vec<u32> },
    Sweep { background: Vec<u32>, n: usize, kind: u8, rec: u32 },
    /// population of real-HPO size: flat ontology with 20 000 leaves (see `large_records`)
    Large { mode: u8, stride: u32, offset: u32, target: u8, k: u32, n: u32, rot: u32 },
}

pub const BIG_M: u32 = 20_000;
/// (kind, record id, K, multiplier): the record is linked to the leaves with ((id * mult) % 20000) < K
pub const LARGE_RECORDS: [(usize, u32, u32, u32); 10] = [
    (GENE, 1, 1, 7),
    (GENE, 2, 7, 11),
    (GENE, 3, 60, 13),
    (GENE, 4, 400, 17),
    (GENE, 5, 1101, 19),
    (GENE, 6, 5000, 23),
    (GENE, 7, 12000, 29),
    (GENE, 8, 19000, 31),
    (OMIM, 1, 1101, 37),
    (ORPHA, 1, 60, 41),
];

/// linked leaves of record `rec` in a flat ontology of `m` leaves: K scales with m (K_20000 * m / 20000, at least 1)
fn large_linked_m(rec: usize, leaf_id: u32, m: u32) -> bool {
    let (_, _, k, mult) = LARGE_RECORDS[rec];
    let k = (u64::from(k) * u64::from(m) / u64::from(BIG_M)).max(1);
    (u64::from(leaf_id) * u64::from(mult)) % u64::from(m) < k
}

fn build_big(m: u32) -> Ontology {
    let mut f = Facts::default();
    f.terms.push(TermFact { id: 1, name: "root".into(), obsolete: false, replacement: None });
    for id in 2..=m + 1 {
        f.terms.push(TermFact { id, name: "leaf".into(), obsolete: id % 11 == 3, replacement: None });
        f.edges.push((id, 1));
    }
    for (r, (kind, rid, _, _)) in LARGE_RECORDS.iter().enumerate() {
        let terms: Vec<u32> = (2..=m + 1).filter(|id| large_linked_m(r, *id, m)).collect();
        f.recs[*kind].push(RecFact { id: *rid, name: "r".into(), terms });
    }
    // HP:0000118 is one of the leaves, so `from_bytes` finds both default roots
    via_binary(&f, 3).expect("large ontology")
}

thread_local! {
    static BIG: Ontology = build_big(BIG_M);
}

/// The same check on a freshly built flat ontology with `m` leaves (populations of 10^5 and more).
#[allow(clippy::too_many_arguments)]
pub fn check_huge(m: u32, mode: u8, stride: u32, offset: u32, target: usize, k: u32, n: u32, rot: u32, stats: &mut Stats) -> CheckResult {
    ensure!((1000..=2_000_000).contains(&m), "harness/bad-case", "bad population size");
    let ont = build_big(m);
    let r = check_large_on(&ont, m, 1e-7, mode, stride, offset, target, k, n, rot, stats);
    if r.is_ok() && m >= 100_000 {
        stats.label("N>=100000");
    }
    if r.is_ok() && u64::from(n) * u64::from(m) > u64::from(u32::MAX) {
        stats.label("n*N>2^32");
    }
    r
}

#[allow(clippy::too_many_arguments)]
fn check_large(mode: u8, stride: u32, offset: u32, target: usize, k: u32, n: u32, rot: u32, stats: &mut Stats) -> CheckResult {
    BIG.with(|ont| check_large_on(ont, BIG_M, LARGE_TOL, mode, stride, offset, target, k, n, rot, stats))
}

#[allow(clippy::too_many_arguments)]
fn check_large_on(ont: &Ontology, big_m: u32, tol: f64, mode: u8, stride: u32, offset: u32, target: usize, k: u32, n: u32, rot: u32, stats: &mut Stats) -> CheckResult {
    ensure!(target < LARGE_RECORDS.len() && stride >= 1 && n >= 1, "harness/bad-case", "bad large case");
    // background: all terms / all leaves / every stride-th leaf
    let leaves: Vec<u32> = (2..=big_m + 1).filter(|id| mode < 2 || id % stride == offset % stride).collect();
    let with_root = mode == 0;
    let linked: Vec<u32> = leaves.iter().copied().filter(|id| large_linked_m(target, *id, big_m)).collect();
    let unlinked: Vec<u32> = leaves.iter().copied().filter(|id| !large_linked_m(target, *id, big_m)).collect();
    let k = (k as usize).min(linked.len()).min(n as usize);
    let rest = (n as usize - k).min(unlinked.len());
    let mut sample: Vec<u32> = Vec::with_capacity(k + rest);
    for i in 0..k {
        sample.push(linked[(rot as usize + i) % linked.len()]);
    }
    for i in 0..rest {
        sample.push(unlinked[(rot as usize + i) % unlinked.len()]);
    }
    if sample.is_empty() {
        return Ok(());
    }
    let pop = leaves.len() + usize::from(with_root);
    let draws = sample.len();
    {
        for kind in 0..3 {
            let mut bgt: Vec<HpoTerm> = leaves.iter().map(|t| ont.hpo(*t).unwrap()).collect();
            if with_root {
                bgt.push(ont.hpo(1u32).unwrap());
            }
            let smt: Vec<HpoTerm> = sample.iter().map(|t| ont.hpo(*t).unwrap()).collect();
            let got = match enrich(kind, bgt, smt) {
                Ok(v) => v,
                Err(p) => return fail(format!("{}-enrichment/panic", KIND_NAMES[kind]), format!("N={pop} n={draws}: {p}")),
            };
            let mut expected = 0;
            for (r, (rk, rid, _, _)) in LARGE_RECORDS.iter().enumerate() {
                if *rk != kind {
                    continue;
                }
                let succ = leaves.iter().filter(|id| large_linked_m(r, **id, big_m)).count() + usize::from(with_root);
                let kk = sample.iter().filter(|id| large_linked_m(r, **id, big_m)).count();
                stats.eval(1);
                let tuple = format!("{}({rid}): N={pop} K={succ} n={draws} k={kk}", KIND_NAMES[kind]);
                let o = got.iter().filter(|o| o.id == *rid).collect::<Vec<_>>();
                if kk == 0 {
                    ensure!(o.is_empty(), format!("{}-enrichment/unlinked-record-reported", KIND_NAMES[kind]), "{tuple}: reported although not linked to the sample");
                    continue;
                }
                expected += 1;
                ensure!(o.len() == 1, format!("{}-enrichment/record-missing", KIND_NAMES[kind]), "{tuple}: reported {} times", o.len());
                let o = o[0];
                ensure!(o.count == kk as u64, format!("{}-enrichment/count", KIND_NAMES[kind]), "{tuple}: count = {}", o.count);
                ensure!(!o.p.is_nan() && o.p >= 0.0 && o.p <= 1.0, "pvalue/outside-0-1", "{tuple}: p-value {:e} outside [0,1]", o.p);
                let want = hypergeom_tail_large(pop, succ, draws, kk);
                ensure!(rel_close(o.p, want, tol), "pvalue/value/large-population", "{tuple}: p-value {:e}, exact tail P[X>=k] = {:e}", o.p, want);
                let fold = (kk as f64 / draws as f64) / (succ as f64 / pop as f64);
                ensure!(rel_close(o.fold, fold, 1e-12), "fold-enrichment", "{tuple}: enrichment {}, (k/n)/(K/N) = {fold}", o.fold);
                if std::env::var("C06_DEBUG").is_ok() && want > 0.0 {
                    eprintln!("relerr {:e} {tuple} p={:e}", ((o.p - want) / want).abs(), want);
                }
                if kk < succ.min(draws) && succ < pop {
                    stats.nontrivial(((pop as u64) << 48) | ((succ as u64) << 32) | ((draws as u64) << 16) | kk as u64);
                    stats.label("nontrivial");
                    if want < 1e-12 && want > 0.0 {
                        stats.label("large:p<1e-12");
                    }
                    if (kk as f64) < 0.5 * draws as f64 * succ as f64 / pop as f64 {
                        stats.label("large:k-far-below-mean");
                    }
                }
            }
            ensure!(got.len() == expected, format!("{}-enrichment/extra-records", KIND_NAMES[kind]), "{} records reported, {expected} linked to the sample", got.len());
        }
        if big_m == BIG_M {
            stats.label("N~20000");
        }
        Ok(())
    }
}

/// tolerance for populations of ~20 000 (ln-gamma based terms of size ~1e4..1e5 lose a few more digits)
const LARGE_TOL: f64 = 1e-8;

struct Obs {
    id: u32,
    count: u64,
    p: f64,
    fold: f64,
}

fn call<'a, B: IntoIterator<Item = HpoTerm<'a>>, S: IntoIterator<Item = HpoTerm<'a>>>(kind: usize, bg: B, sample: S) -> Vec<Obs> {
    match kind {
        GENE => gene_enrichment(bg, sample).iter().map(|e| Obs { id: e.id().as_u32(), count: e.count(), p: e.pvalue(), fold: e.enrichment() }).collect(),
        OMIM => omim_disease_enrichment(bg, sample).iter().map(|e| Obs { id: e.id().as_u32(), count: e.count(), p: e.pvalue(), fold: e.enrichment() }).collect(),
        _ => orpha_disease_enrichment(bg, sample).iter().map(|e| Obs { id: e.id().as_u32(), count: e.count(), p: e.pvalue(), fold: e.enrichment() }).collect(),
    }
}

fn enrich(kind: usize, bg: Vec<HpoTerm>, sample: Vec<HpoTerm>) -> Result<Vec<Obs>, String> {
    // the functions take any IntoIterator: plain Vecs, iterators without an exact size hint, and lazy
    // filters over a longer source (whose upper size bound is larger than what they yield)
    match (bg.len() + sample.len()) % 3 {
        1 => {
            let bg = bg.into_iter().filter(|_| true);
            let sample = sample.into_iter().map_while(Some);
            guarded(|| call(kind, bg, sample))
        }
        2 if !bg.is_empty() => {
            // every real element is followed by a filler that the filter drops again
            let filler = bg[0];
            let pb: Vec<HpoTerm> = bg.into_iter().flat_map(|t| [t, filler]).collect();
            let ps: Vec<HpoTerm> = sample.into_iter().flat_map(|t| [t, filler]).collect();
            let bg = pb.into_iter().enumerate().filter(|(i, _)| i % 2 == 0).map(|(_, t)| t);
            let sample = ps.into_iter().enumerate().filter(|(i, _)| i % 2 == 0).map(|(_, t)| t);
            guarded(|| call(kind, bg, sample))
        }
        _ => guarded(|| call(kind, bg, sample)),
    }
}

fn rel_close(x: f64, y: f64, rel: f64) -> bool {
    x.is_finite() && (x - y).abs() <= rel * y.abs() + 1e-300
}

fn check_enrich(background: &[u32], sample: &[u32], stats: &mut Stats) -> CheckResult {
    FIX.with(|fx| {
        let m = &fx.model;
        let bg: BTreeSet<u32> = background.iter().copied().collect();
        let sm: BTreeSet<u32> = sample.iter().copied().collect();
        ensure!(bg.len() == background.len() && sm.len() == sample.len() && sm.is_subset(&bg) && bg.iter().all(|t| m.has(*t)), "harness/bad-case", "case outside the domain (duplicates / sample not drawn from background)");
        let pop = bg.len();
        let draws = sm.len();
        if pop <= 170 {
            stats.label("N<=170");
        } else {
            stats.label("N>170");
        }
        for kind in 0..3 {
            let bgt: Vec<HpoTerm> = background.iter().map(|t| fx.ont.hpo(*t).unwrap()).collect();
            let smt: Vec<HpoTerm> = sample.iter().map(|t| fx.ont.hpo(*t).unwrap()).collect();
            let got = match enrich(kind, bgt, smt) {
                Ok(v) => v,
                Err(p) => return fail(format!("{}-enrichment/panic", KIND_NAMES[kind]), format!("N={pop} n={draws}: {p}")),
            };
            let mut seen: BTreeMap<u32, &Obs> = BTreeMap::new();
            for o in &got {
                ensure!(seen.insert(o.id, o).is_none(), format!("{}-enrichment/duplicate-record", KIND_NAMES[kind]), "record {} reported twice", o.id);
            }
            let mut expected = 0;
            for rid in m.direct[kind].keys() {
                let linked = |t: &u32| m.inh[kind][m.i(*t)].contains(rid);
                let succ = bg.iter().filter(|t| linked(t)).count();
                let k = sm.iter().filter(|t| linked(t)).count();
                stats.eval(1);
                let tuple = format!("{}({rid}): N={pop} K={succ} n={draws} k={k}", KIND_NAMES[kind]);
                if k == 0 {
                    ensure!(!seen.contains_key(rid), format!("{}-enrichment/unlinked-record-reported", KIND_NAMES[kind]), "{tuple}: record is not linked to any sample term but is reported");
                    continue;
                }
                expected += 1;
                let Some(o) = seen.get(rid) else {
                    return fail(format!("{}-enrichment/record-missing", KIND_NAMES[kind]), format!("{tuple}: record missing from the result"));
                };
                ensure!(o.count == k as u64, format!("{}-enrichment/count", KIND_NAMES[kind]), "{tuple}: count = {}", o.count);
                ensure!(!o.p.is_nan() && o.p >= 0.0 && o.p <= 1.0, "pvalue/outside-0-1", "{tuple}: p-value {:e} outside [0,1] ({})", o.p, o.p);
                let want = hypergeom_tail(pop, succ, draws, k);
                let side = if pop <= 170 { "table" } else { "lanczos" };
                ensure!(rel_close(o.p, want, 1e-9), format!("pvalue/value/{side}"), "{tuple}: p-value {:e}, exact tail P[X>=k] = {:e}", o.p, want);
                let fold = (k as f64 / draws as f64) / (succ as f64 / pop as f64);
                ensure!(rel_close(o.fold, fold, 1e-12), "fold-enrichment", "{tuple}: enrichment {}, (k/n)/(K/N) = {fold}", o.fold);
                if k < succ.min(draws) && succ < pop {
                    stats.label("nontrivial");
                    stats.nontrivial(((pop as u64) << 48) | ((succ as u64) << 32) | ((draws as u64) << 16) | k as u64);
                    if pop > 170 {
                        stats.sample(|| json!({"kind": KIND_NAMES[kind], "N": pop, "K": succ, "n": draws, "k": k, "pvalue": o.p, "exact": want, "fold": o.fold}));
                    }
                }
            }
            ensure!(got.len() == expected, format!("{}-enrichment/extra-records", KIND_NAMES[kind]), "{} records reported, {expected} are linked to the sample", got.len());
        }
        if bg.iter().any(|t| *t == ROOT || inner_ids().contains(t)) {
            stats.label("background-with-inner-nodes");
        }
        if sm.is_empty() {
            stats.label("empty-sample");
        }
        Ok(())
    })
}

fn check_sweep(background: &[u32], n: usize, kind: usize, rec: u32, stats: &mut Stats) -> CheckResult {
    FIX.with(|fx| {
        let m = &fx.model;
        let bg: BTreeSet<u32> = background.iter().copied().collect();
        ensure!(bg.len() == background.len() && bg.iter().all(|t| m.has(*t)) && kind < 3 && m.direct[kind].contains_key(&rec) && n >= 1 && n <= bg.len(), "harness/bad-case", "sweep case outside the domain");
        let linked: Vec<u32> = background.iter().copied().filter(|t| m.inh[kind][m.i(*t)].contains(&rec)).collect();
        let unlinked: Vec<u32> = background.iter().copied().filter(|t| !m.inh[kind][m.i(*t)].contains(&rec)).collect();
        let pop = bg.len();
        let succ = linked.len();
        let lo = (n + succ).saturating_sub(pop).max(1);
        let hi = succ.min(n);
        let mut prev: Option<(usize, f64)> = None;
        for k in lo..=hi {
            let mut sample: Vec<u32> = linked[..k].to_vec();
            sample.extend_from_slice(&unlinked[..n - k]);
            let bgt: Vec<HpoTerm> = background.iter().map(|t| fx.ont.hpo(*t).unwrap()).collect();
            let smt: Vec<HpoTerm> = sample.iter().map(|t| fx.ont.hpo(*t).unwrap()).collect();
            let got = match enrich(kind, bgt, smt) {
                Ok(v) => v,
                Err(p) => return fail(format!("{}-enrichment/panic", KIND_NAMES[kind]), p),
            };
            stats.eval(1);
            let tuple = format!("{}({rec}): N={pop} K={succ} n={n} k={k}", KIND_NAMES[kind]);
            let Some(o) = got.iter().find(|o| o.id == rec) else {
                return fail(format!("{}-enrichment/record-missing", KIND_NAMES[kind]), format!("{tuple}: record missing"));
            };
            ensure!(o.count == k as u64, format!("{}-enrichment/count", KIND_NAMES[kind]), "{tuple}: count {}", o.count);
            ensure!(!o.p.is_nan() && o.p >= 0.0 && o.p <= 1.0, "pvalue/outside-0-1", "{tuple}: p-value {:e} outside [0,1] ({})", o.p, o.p);
            let want = hypergeom_tail(pop, succ, n, k);
            let side = if pop <= 170 { "table" } else { "lanczos" };
            ensure!(rel_close(o.p, want, 1e-9), format!("pvalue/value/{side}"), "{tuple}: p-value {:e}, exact {:e}", o.p, want);
            if let Some((pk, pp)) = prev {
                ensure!(o.p <= pp, "pvalue/not-monotone-in-k", "N={pop} K={succ} n={n}: p(k={pk}) = {:e} < p(k={k}) = {:e}", pp, o.p);
            }
            prev = Some((k, o.p));
        }
        if hi >= lo + 2 {
            stats.label("k-sweep>=3");
            stats.label("nontrivial");
            stats.nontrivial(hash_json(&(pop, succ, n, kind, rec)) | 1 << 63);
        }
        if pop <= 170 { stats.label("N<=170") } else { stats.label("N>170") }
        Ok(())
    })
}

pub fn check(c: &Case, stats: &mut Stats) -> CheckResult {
    match c {
        Case::Enrich { background, sample } => check_enrich(background, sample, stats),
        Case::Sweep { background, n, kind, rec } => check_sweep(background, *n, *kind as usize, *rec, stats),
        Case::Large { mode, stride, offset, target, k, n, rot } => check_large(*mode, *stride, *offset, *target as usize, *k, *n, *rot, stats),
    }
}

fn subset(all: &[u32], keys: &[u16], n: usize) -> Vec<u32> {
    let mut idx: Vec<(u16, u32)> = all.iter().enumerate().map(|(i, t)| (keys[i % keys.len()].wrapping_add((i / keys.len()) as u16 * 7919), *t)).collect();
    idx.sort();
    idx.into_iter().take(n).map(|x| x.1).collect()
}

fn strategy() -> BoxedStrategy<Case> {
    let total = 441usize;
    let size = prop_oneof![
        3 => 1usize..=30,
        4 => 160usize..=182,
        // around 2^7 and 2^8 (limits of exact integer arithmetic, index widths)
        2 => 120usize..=140,
        2 => 250usize..=262,
        3 => 1usize..=441,
        1 => Just(441usize),
        1 => 400usize..=441,
    ];
    let leaves_only = proptest::bool::weighted(0.5);
    let enrich = (size.clone(), leaves_only, vec(any::<u16>(), total), vec(any::<u16>(), total), any::<u16>()).prop_map(move |(n_bg, leaves_only, k1, k2, np)| {
        let all: Vec<u32> = if leaves_only { leaf_ids() } else { all_term_ids() };
        let n_bg = n_bg.min(all.len());
        let background = subset(&all, &k1, n_bg);
        // sample sizes 1..=N; one case in 64 the empty sample (no record may be reported)
        let n = if np % 64 == 0 { 0 } else { 1 + pick(np, n_bg) };
        let sample = subset(&background, &k2, n);
        Case::Enrich { background, sample }
    });
    let sweep = (size, vec(any::<u16>(), total), any::<u16>(), 0u8..3, 1u32..=30).prop_map(move |(n_bg, k1, np, kind, rec)| {
        let all: Vec<u32> = all_term_ids();
        let background = subset(&all, &k1, n_bg.min(all.len()));
        let n = 1 + pick(np, background.len());
        Case::Sweep { background, n, kind, rec }
    });
    let large = (0u8..3, 2u32..6, any::<u16>(), 0u8..10, prop_oneof![3 => 0u32..40, 1 => 0u32..2500], prop_oneof![2 => 1u32..80, 2 => 80u32..2500], any::<u16>())
        .prop_map(|(mode, stride, offset, target, k, n, rot)| Case::Large { mode, stride, offset: u32::from(offset), target, k, n, rot: u32::from(rot) });
    prop_oneof![30 => enrich, 20 => sweep, 1 => large].boxed()
}

impl Property for C06 {
    fn id(&self) -> &'static str {
        "C06"
    }
    fn rule(&self) -> String {
        "Fixed two-level ontology loaded from own v3 bytes (root, 20 inner nodes, 420 leaves, every ninth leaf and one inner node flagged obsolete; 32 records per kind with the same ids in every kind - 1..=30, 0 and u32::MAX -, annotated to pseudo-random K-subsets of the leaves, K from 1 to 420 incl. 168..172). Generated per case: a background (subset of the terms, leaves only or with inner nodes/root so that K also arises by inheritance; sizes biased to 1..30, 160..182 and up to 441) and a sample drawn from it; k-sweep cases fix N, K, n and build a sample for every feasible k. A small share of the cases (about 2 %) uses a second fixture of real-HPO size: a flat ontology with 20 000 leaves and 10 records with K from 1 to 19 000; background = all terms / all leaves / every s-th leaf, sample = k linked + n-k unlinked terms (n up to 2500), exact tail by a multiplicative big-integer recurrence, tolerance 1e-8; deterministic sweeps in their own processes use freshly built flat ontologies of 100 000 - 250 000 leaves and one of 10^6 leaves with a sample of 5 000 and a record on 95 % of the population, so that the products n*K and k*N exceed 2^32 (tolerance 1e-7). All three enrichment functions. Oracle: result ids = records linked to >=1 sample term, each once; count = k; p-value vs P[X>=k] computed with exact big integers (Pascal triangle, one rounding), relative 1e-9; fold = (k/n)/(K/N) relative 1e-12; 0<=p<=1 and p non-increasing in k along a sweep, both exact. evaluations = (record, N, K, n, k) tuples. Non-trivial = 0<k<min(K,n) and K<N; distinct = distinct (N,K,n,k) tuples (plus distinct sweeps).".into()
    }
    fn assumptions(&self) -> Vec<String> {
        vec![
            "sample terms are drawn from the background and terms are distinct (documented precondition of the enrichment functions)".into(),
            "one fixed ontology; the quantification over (N,K,n,k) is realised by varying background and sample".into(),
            "p-value tolerance 1e-9 relative against the exact rational tail; range and monotonicity exact".into(),
        ]
    }
    fn cases(&self, tier: Tier) -> u64 {
        match tier {
            Tier::Quick => 16_000,
            Tier::Thorough => 300_000,
        }
    }
    fn required_labels(&self, _tier: Tier) -> Vec<&'static str> {
        vec!["nontrivial", "N<=170", "N>170", "N~20000", "large:p<1e-12", "large:k-far-below-mean", "k-sweep>=3", "background-with-inner-nodes", "empty-sample", "N>=100000", "n*N>2^32"]
    }
    fn run_generated(&self, _tier: Tier, seed: u64, n: u64, stats: &mut Stats) -> Option<(Value, Failure)> {
        run_typed(strategy(), seed, n, stats, check)
    }
    fn replay(&self, case: &Value, stats: &mut Stats) -> Result<CheckResult, String> {
        if let Some(h) = case.get("huge") {
            // (m, mode, stride, offset, target, k, n, rot)
            let v: (u32, u8, u32, u32, usize, u32, u32, u32) = serde_json::from_value(h.clone()).map_err(|e| e.to_string())?;
            stats.cases += 1;
            return Ok(check_huge(v.0, v.1, v.2, v.3, v.4, v.5, v.6, v.7, stats));
        }
        replay_typed::<Case, _>(case, stats, check)
    }
    fn isolated_plans(&self, tier: Tier, seed: u64) -> Vec<Value> {
        // populations of 10^5 and more (one freshly built flat ontology per plan)
        let rot = (seed % 1000) as u32;
        let mut plans: Vec<(u32, u8, u32, u32, usize, u32, u32, u32)> = vec![(100_000, 1, 2, 0, 1, 2, 5, rot), (131_072, 0, 2, 0, 3, 12, 400, rot),
            // a million leaves, a sample of 5 000 and a record on 95 % of the population: the products n*K and k*N exceed 2^32
            (1_000_000, 1, 2, 0, 7, 4_750, 5_000, rot)];
        if tier == Tier::Thorough {
            plans.push((100_500, 1, 2, 0, 2, 1, 60, rot));
            plans.push((250_000, 2, 3, 1, 4, 30, 1500, rot));
            plans.push((99_999, 1, 2, 0, 5, 700, 2400, rot));
        }
        let mut out: Vec<Value> = plans.into_iter().map(|p| json!({"huge": p})).collect();
        // tails of more than 512 / 1024 summands whose mass lies far beyond k (20 000-leaf fixture)
        for (target, k, n) in [(7u8, 1u32, 600u32), (6, 3, 1500), (7, 0, 2400), (5, 2, 1100)] {
            out.push(serde_json::to_value(Case::Large { mode: 0, stride: 2, offset: 0, target, k, n, rot }).unwrap());
        }
        out
    }
}
