//! C04 — built-in term similarities follow their definitions, symmetric and finite.

use crate::gen::{self, GenCfg};
use crate::model::*;
use crate::observe::guarded;
use crate::runner::*;
use crate::ensure;
use hpo::similarity::{
    Builtins, Distance, GraphIc, InformationCoefficient, Jc, Lin, Mutation, Relevance, Resnik, Similarity,
};
use hpo::term::InformationContentKind;
use serde_json::{json, Value};
use std::collections::BTreeSet;

pub struct C04;

pub const ALGOS: [&str; 8] = ["graphic", "resnik", "lin", "jc", "relevance", "informationcoefficient", "distance", "mutation"];
const ALIASES: [&[&str]; 8] = [
    &["graphic", "GraphIC"],
    &["resnik", "Resnik"],
    &["lin"],
    &["jc", "jc2", "JC"],
    &["relevance", "rel"],
    &["informationcoefficient", "ic"],
    &["distance", "dist"],
    &["mutation", "mut"],
];

pub fn kinds() -> [InformationContentKind; 3] {
    [InformationContentKind::Gene, InformationContentKind::Omim, InformationContentKind::Orpha]
}

/// The documented formulas evaluated in f64 on model quantities.
pub fn reference(m: &Model, algo: usize, kind: usize, a: u32, b: u32) -> f64 {
    reference_with(m, algo, kind, a, b, &|t| m.ic(kind, t))
}

/// The formulas on information contents supplied by the caller. With tens of thousands of records a
/// content of about 1/N keeps only three or four significant digits in f32 (that precision is C03's
/// tolerance question); the formulas are then evaluated on the values the terms report.
pub fn reference_with(m: &Model, algo: usize, kind: usize, a: u32, b: u32, ic: &dyn Fn(u32) -> f64) -> f64 {
    let common_self: BTreeSet<u32> = m.anc_self(a).intersection(&m.anc_self(b)).copied().collect();
    let resnik = common_self.iter().map(|t| ic(*t)).fold(0.0f64, f64::max);
    let lin = {
        let s = ic(a) + ic(b);
        if s == 0.0 {
            0.0
        } else {
            2.0 * resnik / s
        }
    };
    match algo {
        0 => {
            if a == b {
                return 1.0;
            }
            let union: f64 = m.anc[m.i(a)].union(&m.anc[m.i(b)]).map(|t| ic(*t)).sum();
            if union == 0.0 {
                return 0.0;
            }
            let common: f64 = common_self.iter().map(|t| ic(*t)).sum();
            common / union
        }
        1 => resnik,
        2 => lin,
        3 => {
            if a == b {
                1.0
            } else if ic(a) == 0.0 || ic(b) == 0.0 {
                0.0
            } else {
                1.0 / (ic(a) + ic(b) - 2.0 * resnik + 1.0)
            }
        }
        4 => lin * (1.0 - (-resnik).exp()),
        5 => lin * (1.0 - 1.0 / (1.0 + resnik)),
        6 => m.distance(a, b).map_or(0.0, |d| 1.0 / (d as f64 + 1.0)),
        _ => {
            if a == b {
                return 1.0;
            }
            let sa = &m.inh[kind][m.i(a)];
            let sb = &m.inh[kind][m.i(b)];
            let un = sa.union(sb).count();
            if un == 0 {
                0.0
            } else {
                sa.intersection(sb).count() as f64 / un as f64
            }
        }
    }
}

fn builtin(algo: usize, k: InformationContentKind) -> Builtins {
    match algo {
        0 => Builtins::GraphIc(k),
        1 => Builtins::Resnik(k),
        2 => Builtins::Lin(k),
        3 => Builtins::Jc(k),
        4 => Builtins::Relevance(k),
        5 => Builtins::InformationCoefficient(k),
        6 => Builtins::Distance(k),
        _ => Builtins::Mutation(k),
    }
}

fn concrete(algo: usize, k: InformationContentKind, a: &hpo::HpoTerm, b: &hpo::HpoTerm) -> f32 {
    match algo {
        0 => GraphIc::new(k).calculate(a, b),
        1 => Resnik::new(k).calculate(a, b),
        2 => Lin::new(k).calculate(a, b),
        3 => Jc::new(k).calculate(a, b),
        4 => Relevance::new(k).calculate(a, b),
        5 => InformationCoefficient::new(k).calculate(a, b),
        6 => Distance::new().calculate(a, b),
        _ => Mutation::new(k).calculate(a, b),
    }
}

pub fn check(f: &Facts, stats: &mut Stats) -> CheckResult {
    let (ont, via) = match super::common::build_auto(f) {
        Ok(o) => o,
        Err(e) => return fail("construct", e),
    };
    stats.count(&format!("path:{via}"), 1);
    if f.terms.iter().any(|t| t.obsolete) {
        stats.label("obsolete-terms");
    }
    // (the Builder API ignores flags; with own v3 bytes they are present)
    let m = Model::new(f);
    let ks = kinds();
    let mut classes: BTreeSet<&'static str> = BTreeSet::new();
    let mut nontrivial = false;
    // large graphs (the deep-chain sweep): a stride of the ordered pairs plus every pair that involves
    // one of the three smallest / largest ids (the library's distance search is quadratic in the depth)
    let big = m.len() > 150;
    let n_ids = m.len();
    let observed_ic = (0..3).any(|k| m.direct[k].len() > 1000);
    for (ia, a) in m.ids.iter().enumerate() {
        let ta = ont.hpo(*a).unwrap();
        for (ib, b) in m.ids.iter().enumerate() {
            if big && (ia * 31 + ib * 17) % 401 != 0 && !(ia < 3 || ib < 3 || ia + 3 >= n_ids || ib + 3 >= n_ids) {
                continue;
            }
            let tb = ont.hpo(*b).unwrap();
            let rel = if a == b {
                "pair:identical"
            } else if m.anc[m.i(*a)].contains(b) || m.anc[m.i(*b)].contains(a) {
                "pair:ancestor-descendant"
            } else if m.parents[m.i(*a)].intersection(&m.parents[m.i(*b)]).next().is_some() {
                "pair:siblings"
            } else if m.anc[m.i(*a)].intersection(&m.anc[m.i(*b)]).next().is_none() {
                "pair:no-common-ancestor"
            } else {
                "pair:cousins"
            };
            classes.insert(rel);
            for k in 0..3 {
                let na = m.inh[k][m.i(*a)].len();
                let nb = m.inh[k][m.i(*b)].len();
                let ann = match (na > 0, nb > 0) {
                    (true, true) => "both-annotated",
                    (false, false) => "none-annotated",
                    _ => "one-annotated",
                };
                classes.insert(ann);
                if a != b && (na > 0 || nb > 0) {
                    nontrivial = true;
                }
                for algo in 0..8 {
                    stats.eval(1);
                    let want = if observed_ic {
                        reference_with(&m, algo, k, *a, *b, &|t| ont.hpo(t).map_or(0.0, |x| f64::from(x.information_content().get_kind(&ks[k]))))
                    } else {
                        reference(&m, algo, k, *a, *b)
                    };
                    let r = guarded(|| {
                        let via_enum = builtin(algo, ks[k]).calculate(&ta, &tb);
                        let via_struct = concrete(algo, ks[k], &ta, &tb);
                        let via_score = ta.similarity_score(&tb, &builtin(algo, ks[k]));
                        let rev = builtin(algo, ks[k]).calculate(&tb, &ta);
                        (via_enum, via_struct, via_score, rev)
                    });
                    let (s, s2, s3, rev) = match r {
                        Ok(v) => v,
                        Err(p) => return fail(format!("{}/panic", ALGOS[algo]), format!("{}({}) on ({a},{b}) panicked: {p}", ALGOS[algo], KIND_NAMES[k])),
                    };
                    let ctx = || format!("{}({}) of ({a},{b}) [{rel}, {ann}]", ALGOS[algo], KIND_NAMES[k]);
                    ensure!(!s.is_nan(), format!("{}/nan/{ann}", ALGOS[algo]), "{} is NaN, formula gives {want}", ctx());
                    ensure!(s.is_finite() && s >= 0.0, format!("{}/range", ALGOS[algo]), "{} = {s}: not a finite number >= 0", ctx());
                    ensure!(
                        s.to_bits() == s2.to_bits() && s.to_bits() == s3.to_bits(),
                        format!("{}/dispatch", ALGOS[algo]),
                        "{}: Builtins = {s}, concrete struct = {s2}, similarity_score = {s3}",
                        ctx()
                    );
                    ensure!(close_f32(s, want, 1e-4), format!("{}/value/{rel}", ALGOS[algo]), "{} = {s}, documented formula gives {want}", ctx());
                    ensure!(
                        (f64::from(s) - f64::from(rev)).abs() <= 1e-6 * want.abs().max(1.0),
                        format!("{}/asymmetric", ALGOS[algo]),
                        "{} = {s} but with swapped arguments {rev}",
                        ctx()
                    );
                }
            }
        }
    }
    // Builtins::new by name (once per case, on the first pair)
    if let (Some(a), Some(b)) = (m.ids.first(), m.ids.last()) {
        let ta = ont.hpo(*a).unwrap();
        let tb = ont.hpo(*b).unwrap();
        for algo in 0..8 {
            for alias in ALIASES[algo] {
                for k in 0..3 {
                    let by_name = match Builtins::new(alias, ks[k]) {
                        Ok(x) => x,
                        Err(e) => return fail("builtins-new/unknown-name", format!("Builtins::new({alias:?}) failed: {e}")),
                    };
                    ensure!(by_name == builtin(algo, ks[k]), "builtins-new/wrong-variant", "Builtins::new({alias:?},{}) = {by_name:?}", KIND_NAMES[k]);
                    let x = by_name.calculate(&ta, &tb);
                    let y = builtin(algo, ks[k]).calculate(&ta, &tb);
                    ensure!(x.to_bits() == y.to_bits(), "builtins-new/value", "Builtins::new({alias:?}) gives {x}, variant gives {y}");
                }
            }
        }
        ensure!(Builtins::new("no-such-method", ks[0]).is_err(), "builtins-new/accepts-unknown", "Builtins::new accepts an unknown name");
    }
    for c in &classes {
        stats.label(c);
    }
    if m.anc.iter().any(|a| a.len() > 30) {
        stats.label("ancestors>30");
    }
    if m.parents.iter().any(|p| p.len() > 10) {
        stats.label("direct-parents>10");
    }
    if nontrivial {
        stats.label("nontrivial");
        stats.nontrivial(f.canonical_hash());
        stats.sample(|| {
            let a = m.ids[0];
            let b = *m.ids.last().unwrap();
            json!({"edges": f.edges, "genes": f.recs[GENE], "pair": [a, b],
                   "reference_gene": (0..8).map(|al| (ALGOS[al], reference(&m, al, GENE, a, b))).collect::<std::collections::BTreeMap<_,_>>()})
        });
    }
    Ok(())
}

impl Property for C04 {
    fn id(&self) -> &'static str {
        "C04"
    }
    fn rule(&self) -> String {
        "Generated: annotated ontologies built through the Builder or, with obsolete / replaced terms, through own v3 bytes (<=12 terms quick / 20 thorough, one case in 20 with 13-18 terms in fan-in shapes so that terms have 11-16 direct parents, 0-8 records per kind, kinds with zero records, terms without annotations, several roots, detached terms); ALL ordered pairs x 8 algorithms x 3 kinds. Oracle: the documented formulas evaluated in f64 on model quantities (ancestor sets, IC = -ln(n/N), BFS distance, inherited record sets) with the documented special cases; tolerance 1e-4 relative (f32 result); exact checks: not NaN, finite, >= 0, Builtins::X / concrete struct / similarity_score bit-identical, Builtins::new(name) selects the same variant for every documented alias; symmetry within 1e-6. evaluations = (pair, algorithm, kind) triples. Non-trivial = ontology has a pair of distinct terms with at least one side annotated for the kind; all pair classes (identical, ancestor-descendant, siblings, cousins, no common ancestor; both/one/none annotated) must occur in a run. Distinct by canonical facts.".into()
    }
    fn assumptions(&self) -> Vec<String> {
        vec![
            "GraphIC: sum IC over (A(a)+a)∩(A(b)+b) divided by sum IC over A(a)∪A(b) (terms themselves not in the union: what all_union_ancestors returns and the doctests assert), 0 if the denominator is 0, 1 for identical terms".into(),
            "Jiang-Conrath is the 0.8.3 definition: 1 for identical terms, 0 if either IC is 0, else 1/(IC_a+IC_b-2*resnik+1)".into(),
            "f32 results compared with an f64 reference within 1e-4 relative".into(),
        ]
    }
    fn cases(&self, tier: Tier) -> u64 {
        match tier {
            Tier::Quick => 16_000,
            Tier::Thorough => 300_000,
        }
    }
    fn required_labels(&self, _tier: Tier) -> Vec<&'static str> {
        vec!["nontrivial", "obsolete-terms", "ancestors>30", "pair:identical", "pair:ancestor-descendant", "pair:siblings", "pair:cousins", "pair:no-common-ancestor", "both-annotated", "one-annotated", "none-annotated", "records>32767", "depth>255", "direct-parents>10", "direct-parents>255"]
    }
    fn run_generated(&self, tier: Tier, seed: u64, n: u64, stats: &mut Stats) -> Option<(Value, Failure)> {
        let max = if tier == Tier::Quick { 12 } else { 20 };
        // 1 case in 40: 32-40 terms in chain / fan shapes (ancestor sets beyond the inline capacity of an
        // id group; ladders are excluded here: the library's distance search is exponential on them)
        let strategy = proptest::prop_oneof![
            26 => gen::facts(GenCfg::small().terms(1, max).recs(8)),
            13 => gen::facts(GenCfg::small().terms(2, max).recs(8).standard().with_flags(true).names(crate::gen::NameMode::Capped)),
            1 => gen::facts(GenCfg::small().terms(32, 40).recs(6).shapes(&[1, 3])),
            // terms with 11-16 direct parents (fan-in and wide-diamond shapes; a term stores 10 parents inline)
            4 => gen::facts(GenCfg::small().terms(13, 18).recs(4).shapes(&[5, 6])),
        ];
        run_typed(proptest::strategy::Strategy::boxed(strategy), seed, n, stats, check)
    }
    fn replay(&self, case: &Value, stats: &mut Stats) -> Result<CheckResult, String> {
        if let Some(b) = case.get("large") {
            // tens of thousands of records per kind on seven terms (annotation sets whose sizes add up beyond 65 535)
            let v: (u32, u32, u32) = serde_json::from_value(b.clone()).map_err(|e| e.to_string())?;
            stats.cases += 1;
            let r = check(&super::common::large_record_facts(v.0, v.1, v.2), stats);
            if r.is_ok() {
                stats.label("records>32767");
            }
            return Ok(r);
        }
        if let Some(b) = case.get("deep") {
            // a plain is_a chain deeper than 255 links
            let v: (u32, u32, u32) = serde_json::from_value(b.clone()).map_err(|e| e.to_string())?;
            stats.cases += 1;
            let r = check(&super::common::deep_chain_facts(v.0, v.1, v.2, 0), stats);
            if r.is_ok() {
                stats.label("depth>255");
            }
            return Ok(r);
        }
        if let Some(b) = case.get("fanin") {
            // one term with more direct parents than an 8-bit counter holds
            let v: (u32, u32, u32) = serde_json::from_value(b.clone()).map_err(|e| e.to_string())?;
            stats.cases += 1;
            let r = check(&super::common::fanin_facts(v.0, v.1, v.2), stats);
            if r.is_ok() {
                stats.label("direct-parents>255");
            }
            return Ok(r);
        }
        replay_typed::<Facts, _>(case, stats, check)
    }
    fn isolated_plans(&self, tier: Tier, seed: u64) -> Vec<Value> {
        let vary = (seed % 499) as u32;
        let mut out = vec![json!({"large": (50_000u32 + vary, 40_000u32, 33_000u32)}), json!({"deep": (280u32, 7919u32, 9u32)}), json!({"fanin": (300u32, 104_729u32, 9u32)})];
        if tier == Tier::Thorough {
            out.push(json!({"large": (65_535u32, 65_535u32, 65_535u32)}));
            out.push(json!({"deep": (700u32, 104_729u32, 20u32)}));
        }
        out
    }
}
