//! C14 — sub-ontologies keep shortest leaf-root chains, induced links, phenotype links.

use super::common::{build_path, bulk_facts, expected_facts, PathSel};
use crate::build::*;
use crate::gen::{self, pick, GenCfg, NameMode};
use crate::model::*;
use crate::observe::*;
use crate::runner::*;
use crate::ensure;
use hpo::HpoTerm;
use proptest::collection::vec;
use proptest::prelude::*;
use serde::{Deserialize, Serialize};
use serde_json::{json, Value};
use std::collections::BTreeSet;

pub struct C14;

#[derive(Clone, Debug, Serialize, Deserialize, PartialEq)]
pub struct Case {
    pub facts: Facts,
    pub root: u32,
    /// leaf term ids, duplicates allowed, non-empty
    pub leaves: Vec<u32>,
    /// how the source ontology is constructed (default: own v3 bytes)
    #[serde(default = "super::c13::default_path")]
    pub path: PathSel,
    /// when non-empty: the source's modifier roots are replaced (through `modifier_mut()`) by the terms
    /// these picks select
    #[serde(default)]
    pub custom_modifier: Vec<u16>,
}

pub fn check(c: &Case, stats: &mut Stats) -> CheckResult {
    let mut src = match build_path(&c.facts, c.path, &JaxNoise::default()) {
        Ok(o) => o,
        Err(e) => return fail(format!("construct/{}", c.path.name()), e),
    };
    let src_facts = expected_facts(&c.facts, c.path);
    let m = Model::new(&src_facts);
    stats.count(&format!("path:{}", c.path.name()), 1);
    ensure!(m.has(c.root) && !c.leaves.is_empty() && c.leaves.iter().all(|l| m.has(*l)), "harness/bad-case", "root/leaves must be terms of the source");
    let default_mods = m.default_modifier().unwrap_or_default();
    if c.custom_modifier.is_empty() {
        return check_request(&src, c, &m, &src_facts, &default_mods, stats);
    }
    // user-defined modifier roots (any terms of the source), set through modifier_mut(); the request is made twice
    // on the same ontology value, once under the user-defined and once under the default roots, in either order
    // (the roots may change between two calls)
    let custom: BTreeSet<u32> = c.custom_modifier.iter().map(|p| m.ids[pick(*p, m.ids.len())]).collect();
    stats.label("custom-modifier-roots");
    let custom_first = c.custom_modifier[0] % 2 == 0;
    for step in 0..2 {
        let use_custom = (step == 0) == custom_first;
        let mods = if use_custom {
            *src.modifier_mut() = custom.iter().map(|t| hpo::HpoTermId::from_u32(*t)).collect();
            &custom
        } else {
            if step == 0 {
                // as built: the default roots
            } else if src.set_default_modifier().is_err() {
                ensure!(!(m.has(1) && m.has(118)), "set_default_modifier/fails", "set_default_modifier failed although HP:0000001 and HP:0000118 exist");
                break;
            }
            &default_mods
        };
        if step == 1 {
            stats.label("second-request-after-the-modifier-roots-changed");
        }
        check_request(&src, c, &m, &src_facts, mods, stats)?;
    }
    Ok(())
}

fn check_request(src: &hpo::Ontology, c: &Case, m: &Model, src_facts: &Facts, mods: &BTreeSet<u32>, stats: &mut Stats) -> CheckResult {
    let inside: BTreeSet<u32> = {
        let mut s = m.desc[m.i(c.root)].clone();
        s.insert(c.root);
        s
    };
    let valid = c.leaves.iter().all(|l| inside.contains(l));
    stats.eval(1);
    let root_t = src.hpo(c.root).unwrap();
    let leaves_t: Vec<HpoTerm> = c.leaves.iter().map(|l| src.hpo(*l).unwrap()).collect();
    let res = guarded(|| src.sub_ontology(root_t, leaves_t));
    let sub = match res {
        Err(p) => return fail("sub_ontology/panic", format!("sub_ontology(root={}, leaves={:?}) panicked: {p}", c.root, c.leaves)),
        Ok(Err(e)) => {
            ensure!(!valid, "sub_ontology/valid-request-refused", "sub_ontology(root={}, leaves={:?}) = Err({e}) although every leaf is root or a descendant of root", c.root, c.leaves);
            stats.label("leaf-outside-root-subtree");
            stats.nontrivial(hash_json(c));
            return Ok(());
        }
        Ok(Ok(o)) => {
            ensure!(valid, "sub_ontology/invalid-request-accepted", "sub_ontology(root={}, leaves={:?}) succeeded although {:?} is not below root", c.root, c.leaves, c.leaves.iter().find(|l| !inside.contains(l)));
            o
        }
    };
    let snap = guarded(|| observe(&sub)).map_err(|p| Failure { signature: "observe-panic".into(), message: p })?;
    let kept: BTreeSet<u32> = snap.terms.keys().copied().collect();
    // ---- term set: root, leaves, only terms on a shortest chain leaf -> root
    ensure!(kept.contains(&c.root), "terms/root-missing", "root {} not in the sub-ontology {kept:?}", c.root);
    for l in &c.leaves {
        ensure!(kept.contains(l), "terms/leaf-missing", "leaf {l} not in the sub-ontology {kept:?}");
    }
    let up_root: std::collections::BTreeMap<u32, std::collections::BTreeMap<u32, usize>> = kept.iter().filter(|t| m.has(**t)).map(|t| (*t, m.up_dist(*t))).collect();
    for t in &kept {
        ensure!(m.has(*t), "terms/invented", "term {t} of the sub-ontology does not exist in the source");
        let on_chain = c.leaves.iter().any(|l| {
            let ul = m.up_dist(*l);
            match (ul.get(t), up_root[t].get(&c.root), ul.get(&c.root)) {
                (Some(a), Some(b), Some(d)) => a + b == *d,
                _ => false,
            }
        });
        ensure!(on_chain, "terms/not-on-a-shortest-chain", "term {t} is retained but lies on no shortest parent chain from a leaf {:?} to root {}", c.leaves, c.root);
    }
    // ---- expected facts restricted to the retained terms
    let mut exp = Facts::default();
    for t in &src_facts.terms {
        if kept.contains(&t.id) && !exp.has_term(t.id) {
            exp.terms.push(t.clone());
        }
    }
    for (ch, p) in &src_facts.edges {
        if kept.contains(ch) && kept.contains(p) {
            exp.edges.push((*ch, *p));
        }
    }
    let phenotype: BTreeSet<u32> = kept.iter().copied().filter(|t| !m.is_modifier_with(*t, &mods)).collect();
    let mut dropped = 0;
    let mut on_modifier_root_only = false;
    for k in 0..3 {
        for (rid, (name, terms)) in &m.direct[k] {
            let retained: Vec<u32> = terms.iter().copied().filter(|t| kept.contains(t)).collect();
            if terms.iter().any(|t| phenotype.contains(t)) {
                exp.recs[k].push(RecFact { id: *rid, name: name.clone(), terms: retained });
            } else {
                dropped += 1;
                if retained.iter().any(|t| mods.contains(t)) {
                    on_modifier_root_only = true;
                }
            }
        }
    }
    let em = Model::new(&exp);
    let e = Expect { model: &em, defaults: false, term_name: &ident, rec_name: &ident_rec };
    let diffs: Vec<Diff> = diff_model(&snap, &e, &[Group::Basic, Group::Closure, Group::Annot, Group::Ic, Group::Cats, Group::Problems])
        .into_iter()
        .filter(|d| !d.what.starts_with("version"))
        .collect();
    if let Some(d) = diffs.first() {
        let kind: String = d.what.split(' ').next().unwrap_or("").chars().take(20).collect();
        // classify record differences
        let class = if ["gene", "omim", "orpha"].contains(&kind.as_str()) {
            let k = KIND_NAMES.iter().position(|x| *x == kind).unwrap();
            let got: BTreeSet<u32> = snap.recs[k].keys().copied().collect();
            let want: BTreeSet<u32> = em.direct[k].keys().copied().collect();
            let extra: Vec<u32> = got.difference(&want).copied().collect();
            if let Some(x) = extra.first() {
                let ts = &m.direct[k][x].1;
                if ts.iter().filter(|t| kept.contains(t)).all(|t| mods.contains(t)) {
                    "record-only-on-modifier-root-kept"
                } else {
                    "record-only-on-modifier-terms-kept"
                }
            } else if want.difference(&got).next().is_some() {
                "record-missing"
            } else {
                "record-links"
            }
        } else {
            "structure"
        };
        return fail(
            format!("sub-ontology/{class}/{kind}"),
            format!("sub_ontology(root={}, leaves={:?}) of source with modifier roots {mods:?}: {}", c.root, c.leaves, diffs.iter().take(4).map(|d| d.what.clone()).collect::<Vec<_>>().join(" | ")),
        );
    }
    // ---- each leaf reaches root at its original distance
    let r2 = sub.hpo(c.root).unwrap();
    for l in &c.leaves {
        let want = m.up_dist(*l).get(&c.root).copied();
        let got = sub.hpo(*l).unwrap().distance_to_ancestor(&r2);
        ensure!(got == want, "distance/leaf-to-root", "leaf {l} reaches root {} at distance {got:?} in the sub-ontology, {want:?} in the source", c.root);
    }
    let distinct_leaves: BTreeSet<u32> = c.leaves.iter().copied().collect();
    if distinct_leaves.len() != c.leaves.len() {
        stats.label("duplicate-leaves");
    }
    if c.leaves.len() > 30 {
        stats.label("leaves>30");
    }
    if kept.iter().any(|t| m.names[m.i(*t)].len() > 255) {
        stats.label("name-longer-than-255-bytes");
    }
    if c.leaves.contains(&c.root) {
        stats.label("leaf==root");
    }
    if distinct_leaves.iter().any(|a| distinct_leaves.iter().any(|b| a != b && m.anc[m.i(*a)].contains(b))) {
        stats.label("leaf-is-ancestor-of-leaf");
    }
    let mod_with_record = kept.iter().any(|t| m.is_modifier_with(*t, &mods) && (0..3).any(|k| m.direct[k].values().any(|r| r.1.contains(t))));
    if mod_with_record {
        stats.label("retained-modifier-term-with-record");
    }
    if on_modifier_root_only {
        stats.label("record-only-on-retained-modifier-root");
    }
    if kept.len() < inside.len() {
        stats.label("terms-pruned");
    }
    if kept.len() > 30 {
        stats.label("more-than-30-terms-retained");
        if dropped > 0 {
            stats.label("more-than-30-terms-retained-and-a-record-dropped");
        }
    }
    if dropped > 0 {
        stats.label("record-dropped");
    }
    if distinct_leaves.len() >= 2 && mod_with_record && dropped > 0 {
        stats.label("nontrivial");
        stats.nontrivial(hash_json(c));
        stats.sample(|| json!({"root": c.root, "leaves": c.leaves, "source_edges": c.facts.edges, "modifier_roots": mods, "retained": kept,
            "records_kept": [exp.recs[0].len(), exp.recs[1].len(), exp.recs[2].len()], "records_dropped": dropped}));
    }
    Ok(())
}

fn strategy(tier: Tier) -> BoxedStrategy<Case> {
    let max = if tier == Tier::Quick { 18 } else { 50 };
    // names up to 300 bytes; for the binary paths they are cut to the 255 bytes the format stores
    let cfg = GenCfg::small().terms(2, max).recs(6).standard().with_flags(true).names(NameMode::Rich);
    let paths = prop_oneof![6 => Just(PathSel::Bin(3)), 2 => Just(PathSel::Bin(2)), 1 => Just(PathSel::Bin(1)), 2 => Just(PathSel::Jax), 1 => Just(PathSel::JaxT), 1 => Just(PathSel::RoundTrip), 1 => Just(PathSel::BuilderDefaults)];
    // one case in thirteen: 36-56 terms, most of them retained (more than 30 retained terms, records with several
    // direct terms of which some are retained and some are not); fans and chains only, the path search of the library
    // being exponential in the number of alternative routes
    let large = GenCfg::small().terms(36, 56).recs(6).standard().with_flags(true).names(NameMode::Plain).shapes(&[3, 1, 3]);
    (prop_oneof![12 => gen::facts(cfg), 1 => gen::facts(large)], paths, prop_oneof![2 => Just(None), 3 => any::<u16>().prop_map(Some)], prop_oneof![19 => vec((any::<u16>(), 0u8..12), 1..=6), 1 => vec((any::<u16>(), 0u8..12), 31..=45)], prop_oneof![5 => Just(Vec::new()), 1 => vec(any::<u16>(), 1..=3)])
        .prop_map(|(mut facts, path, root_pick, leaf_picks, custom_modifier)| {
            if !matches!(path, PathSel::Jax | PathSel::JaxT | PathSel::BuilderDefaults) {
                for t in facts.terms.iter_mut() {
                    t.name = char_prefix(&t.name, 255).to_string();
                }
                for r in facts.recs[GENE].iter_mut() {
                    r.name = char_prefix(&r.name, 255).to_string();
                }
            }
            let m = Model::new(&facts);
            let root = match root_pick {
                None => 1,
                Some(p) => m.ids[pick(p, m.ids.len())],
            };
            let mut inside: Vec<u32> = m.desc[m.i(root)].iter().copied().collect();
            inside.push(root);
            let outside: Vec<u32> = m.ids.iter().copied().filter(|t| !inside.contains(t)).collect();
            let mut leaves = Vec::new();
            for (p, sel) in leaf_picks {
                if sel == 0 && !outside.is_empty() {
                    leaves.push(outside[pick(p, outside.len())]);
                } else if sel == 1 {
                    leaves.push(root);
                } else if sel == 2 && !leaves.is_empty() {
                    let l = leaves[pick(p, leaves.len())];
                    leaves.push(l);
                } else {
                    leaves.push(inside[pick(p, inside.len())]);
                }
            }
            if facts.terms.len() >= 36 {
                let skip = leaves.len() % 5;
                leaves.extend(inside.iter().enumerate().filter(|(i, _)| (i + skip) % 5 != 0).map(|(_, t)| *t));
            }
            Case { facts, root, leaves, path, custom_modifier }
        })
        .boxed()
}

impl Property for C14 {
    fn id(&self) -> &'static str {
        "C14"
    }
    fn rule(&self) -> String {
        "Generated: source ontologies with HP:0000001/HP:0000118, modifier branches, obsolete/replaced terms and records on phenotype terms, modifier descendants and modifier roots (built with defaults through own v1/v2/v3 bytes, the as_bytes round trip, JAX files or the Builder, so that modifier roots are defined); root = HP:0000001 or any term; 1-6 (one case in 20: 31-45) leaves from {root} ∪ descendants(root) with duplicates, leaf == root, leaves that are ancestors of other leaves, and (error class) leaves outside root's subtree. Oracle: Err iff some leaf is not root or a descendant of root. Otherwise: root and every leaf present; every retained term satisfies u(leaf,t)+u(t,root) = u(leaf,root) for some leaf (BFS distances on the source facts); names, flags, replacements copied; parent/child/ancestor relations = the source's links induced on the retained set; a record is present iff it is directly annotated to a retained term t with ({t} ∪ ancestors(t)) ∩ modifier roots = ∅, with hpo_terms = direct terms ∩ retained; inheritance, IC (totals = kept records), lookups as in C01-C03 against the reference model of the restricted facts; every leaf reaches root at its original distance. evaluations = sub_ontology calls. Non-trivial = >=2 distinct leaves, a retained modifier term carrying a record, >=1 record dropped (or an error-class request); distinct by hash of the case.".into()
    }
    fn assumptions(&self) -> Vec<String> {
        vec![
            "which of several equally short chains is retained is not specified: the retained set is validated, not predicted".into(),
            "the release version of the result is not part of the property and not compared".into(),
        ]
    }
    fn cases(&self, tier: Tier) -> u64 {
        match tier {
            Tier::Quick => 100_000,
            Tier::Thorough => 1_000_000,
        }
    }
    fn required_labels(&self, _tier: Tier) -> Vec<&'static str> {
        vec!["nontrivial", "more-than-30-terms-retained-and-a-record-dropped", "leaves>30", "leaf-outside-root-subtree", "duplicate-leaves", "leaf==root", "leaf-is-ancestor-of-leaf", "retained-modifier-term-with-record", "record-only-on-retained-modifier-root", "terms-pruned", "record-dropped", "leaves>255", "custom-modifier-roots", "name-longer-than-255-bytes", "direct-parents>255", "depth>255"]
    }
    fn run_generated(&self, tier: Tier, seed: u64, n: u64, stats: &mut Stats) -> Option<(Value, Failure)> {
        run_typed(strategy(tier), seed, n, stats, check)
    }
    fn replay(&self, case: &Value, stats: &mut Stats) -> Result<CheckResult, String> {
        if let Some(b) = case.get("big") {
            // (terms, mult, records per kind, number of leaves): more than 255 leaves on a `bulk_facts` ontology
            let v: (u32, u32, u32, u32) = serde_json::from_value(b.clone()).map_err(|e| e.to_string())?;
            stats.cases += 1;
            let facts = bulk_facts(v.0, v.1, v.2);
            let ids: Vec<u32> = facts.terms.iter().map(|t| t.id).collect();
            // leaves: a stride over the supply order (deepest first), the phenotype root as root
            let leaves: Vec<u32> = (0..v.3 as usize).map(|i| ids[(i * 7) % ids.len()]).filter(|t| *t != 1).collect();
            let m = Model::new(&facts);
            let root = if leaves.iter().all(|l| *l == 118 || m.anc[m.i(*l)].contains(&118)) { 118 } else { 1 };
            let c = Case { facts, root, leaves, path: PathSel::Bin(3), custom_modifier: vec![] };
            let r = check(&c, stats);
            if r.is_ok() {
                stats.label("leaves>255");
            }
            return Ok(r);
        }
        if let Some(b) = case.get("shape") {
            // ("fanin" | "deep", size, mult): the request root = HP:0000001, leaves = the lowest terms of a fixture
            // with more than 255 direct parents / more than 255 levels
            let v: (String, u32, u32) = serde_json::from_value(b.clone()).map_err(|e| e.to_string())?;
            stats.cases += 1;
            let facts = if v.0 == "fanin" { super::common::fanin_facts(v.1, v.2, 9) } else { super::common::deep_chain_facts(v.1, v.2, 9, 0) };
            let m = Model::new(&facts);
            // the terms without children, plus one inner term
            let mut leaves: Vec<u32> = m.ids.iter().copied().filter(|t| m.children[m.i(*t)].is_empty() && m.anc[m.i(*t)].contains(&1)).take(3).collect();
            leaves.push(118);
            let c = Case { facts, root: 1, leaves, path: PathSel::Bin(3), custom_modifier: vec![] };
            let r = check(&c, stats);
            if r.is_ok() {
                stats.label(if v.0 == "fanin" { "direct-parents>255" } else { "depth>255" });
            }
            return Ok(r);
        }
        replay_typed::<Case, _>(case, stats, check)
    }
    fn isolated_plans(&self, tier: Tier, seed: u64) -> Vec<Value> {
        let mult = [7919u32, 104_729][(seed % 2) as usize];
        let mut out = vec![json!({"big": (1500u32, mult, 40u32, 300u32)}), json!({"shape": ("fanin", 300u32, mult)}), json!({"shape": ("deep", 300u32, mult)})];
        if tier == Tier::Thorough {
            out.push(json!({"big": (6000u32, mult, 300u32, 1200u32)}));
        }
        out
    }
}
