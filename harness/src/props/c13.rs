//! C13 — HpoSet filters, replacements and aggregates are exact.

use super::common::{build_path, expected_facts, PathSel};
use crate::build::*;
use crate::gen::{self, pick, GenCfg, NameMode};
use crate::model::*;
use crate::observe::*;
use crate::runner::*;
use crate::ensure;
use hpo::annotations::AnnotationId;
use hpo::term::HpoGroup;
use hpo::{HpoSet, HpoTermId};
use proptest::collection::vec;
use proptest::prelude::*;
use serde::{Deserialize, Serialize};
use serde_json::{json, Value};
use std::collections::{BTreeMap, BTreeSet};

pub struct C13;

#[derive(Clone, Debug, Serialize, Deserialize, PartialEq)]
pub struct Case {
    pub facts: Facts,
    pub members: Vec<u32>,
    /// how the ontology is constructed (default: own v3 bytes)
    #[serde(default = "default_path")]
    pub path: PathSel,
    /// operations applied one after the other to ONE set object (aggregates are read between the
    /// in-place mutations): 0 read aggregates, 1 remove_modifier, 2 remove_obsolete,
    /// 3 replace_obsolete, 4 extend by a term, 5 child_nodes, 6 continue on the with_replaced_obsolete copy
    #[serde(default)]
    pub ops: Vec<(u8, u16)>,
    /// when non-empty: the ontology's modifier roots are replaced (through `modifier_mut()`) by the
    /// terms these picks select; the categories stay as built
    #[serde(default)]
    pub custom_modifier: Vec<u16>,
    /// when non-empty: the categories are replaced (through `categories_mut()`) likewise
    #[serde(default)]
    pub custom_categories: Vec<u16>,
}

pub fn default_path() -> PathSel {
    PathSel::Bin(3)
}

fn set_ids(s: &HpoSet) -> Result<Vec<u32>, String> {
    guarded(|| s.iter().map(|t| t.id().as_u32()).collect())
}

fn cmp_set(s: &HpoSet, want: &BTreeSet<u32>, what: &str) -> CheckResult {
    let got = set_ids(s).map_err(|p| Failure { signature: format!("set/{what}/panic"), message: p })?;
    let w: Vec<u32> = want.iter().copied().collect();
    ensure!(got == w, format!("set/{what}"), "{what}: set is {got:?}, expected {w:?}");
    ensure!(s.len() == w.len() && s.is_empty() == w.is_empty(), format!("set/{what}/len"), "{what}: len {} / is_empty {} for {w:?}", s.len(), s.is_empty());
    for (i, id) in w.iter().enumerate() {
        ensure!(s.contains(&HpoTermId::from_u32(*id)), format!("set/{what}/contains"), "{what}: contains({id}) is false");
        ensure!(s.get(i).map(|t| t.id().as_u32()) == Some(*id), format!("set/{what}/get"), "{what}: get({i}) != {id}");
    }
    ensure!(s.get(w.len()).is_none(), format!("set/{what}/get"), "{what}: get(len) is Some");
    Ok(())
}

/// gene / omim / orpha id unions, category counts and information content of `set`, whose members are `members`
fn check_aggregates(set: &HpoSet, members: &BTreeSet<u32>, m: &Model, cats: &BTreeSet<u32>, what: &str) -> CheckResult {
    let mut unions: [BTreeSet<u32>; 3] = Default::default();
    for k in 0..3 {
        for t in members {
            unions[k].extend(m.inh[k][m.i(*t)].iter().copied());
        }
    }
    let got: [BTreeSet<u32>; 3] = guarded(|| {
        [
            set.gene_ids().iter().map(|x| x.as_u32()).collect(),
            set.omim_disease_ids().iter().map(|x| x.as_u32()).collect(),
            set.orpha_disease_ids().iter().map(|x| x.as_u32()).collect(),
        ]
    })
    .map_err(|p| Failure { signature: format!("aggregate{what}/ids/panic"), message: p })?;
    for k in 0..3 {
        ensure!(got[k] == unions[k], format!("aggregate{what}/{}-ids", KIND_NAMES[k]), "{} ids of the set {members:?}: {:?}, union over members {:?}", KIND_NAMES[k], got[k], unions[k]);
    }
    let mut want: BTreeMap<u32, usize> = BTreeMap::new();
    for t in members {
        for cat in m.categories_with(*t, cats) {
            *want.entry(cat).or_insert(0) += 1;
        }
    }
    let got: BTreeMap<u32, usize> = guarded(|| set.categories().into_iter().map(|(k, v)| (k.as_u32(), v)).collect()).map_err(|p| Failure { signature: format!("aggregate{what}/categories/panic"), message: p })?;
    ensure!(got == want, format!("aggregate{what}/categories"), "category counts of {members:?}: {got:?}, expected {want:?}");
    match guarded(|| set.information_content()).map_err(|p| Failure { signature: format!("aggregate{what}/ic/panic"), message: p })? {
        Ok(ic) => {
            let wg = ic_of(unions[GENE].len(), m.direct[GENE].len());
            let wo = ic_of(unions[OMIM].len(), m.direct[OMIM].len());
            ensure!(close_f32(ic.gene(), wg, 1e-5) && ic.gene() >= 0.0, format!("aggregate{what}/ic-gene"), "gene IC of the set {members:?} = {}, -ln({}/{}) = {wg}", ic.gene(), unions[GENE].len(), m.direct[GENE].len());
            ensure!(close_f32(ic.omim_disease(), wo, 1e-5) && ic.omim_disease() >= 0.0, format!("aggregate{what}/ic-omim"), "omim IC of the set {members:?} = {}, -ln({}/{}) = {wo}", ic.omim_disease(), unions[OMIM].len(), m.direct[OMIM].len());
        }
        Err(e) => return fail(format!("aggregate{what}/ic-error"), format!("information_content() = Err({e})")),
    }
    Ok(())
}

/// `cmp_set` when `want` may contain ids that are not terms (a replacement may name such an id): those
/// sets can only be observed through len / contains, every resolving accessor is documented to panic.
fn cmp_set_ids(s: &HpoSet, want: &BTreeSet<u32>, before: &BTreeSet<u32>, m: &Model, what: &str) -> CheckResult {
    if want.iter().all(|t| m.has(*t)) {
        return cmp_set(s, want, what);
    }
    ensure!(s.len() == want.len(), format!("set/{what}/len"), "{what}: len {} for expected ids {want:?}", s.len());
    for id in want {
        ensure!(s.contains(&HpoTermId::from_u32(*id)), format!("set/{what}/contains"), "{what}: contains({id}) is false, expected ids {want:?}");
    }
    for id in before.difference(want) {
        ensure!(!s.contains(&HpoTermId::from_u32(*id)), format!("set/{what}/contains"), "{what}: the replaced member {id} is still in the set, expected ids {want:?}");
    }
    Ok(())
}

pub fn check(c: &Case, stats: &mut Stats) -> CheckResult {
    let mut ont = match build_path(&c.facts, c.path, &JaxNoise::default()) {
        Ok(o) => o,
        Err(e) => return fail(format!("construct/{}", c.path.name()), e),
    };
    let m = Model::new(&expected_facts(&c.facts, c.path));
    stats.count(&format!("path:{}", c.path.name()), 1);
    let members: BTreeSet<u32> = c.members.iter().copied().collect();
    ensure!(members.iter().all(|t| m.has(*t)), "harness/bad-case", "members must be terms");
    let mut mods = m.default_modifier().unwrap_or_default();
    let mut cats = m.default_categories().unwrap_or_default();
    if !c.custom_modifier.is_empty() || !c.custom_categories.is_empty() {
        // the groups are about to change: the questions that depend on them are asked once under the groups the
        // ontology was built with (whatever a query remembers must not survive the change)
        let g0: HpoGroup = c.members.iter().map(|t| HpoTermId::from_u32(*t)).collect();
        let set0 = HpoSet::new(&ont, g0);
        let want0: BTreeSet<u32> = members.iter().copied().filter(|t| !m.is_modifier_with(*t, &mods)).collect();
        let r = guarded(|| set0.without_modifier()).map_err(|p| Failure { signature: "set/without_modifier/panic".into(), message: p })?;
        cmp_set(&r, &want0, "without_modifier(before the groups change)")?;
        check_aggregates(&set0, &members, &m, &cats, "(before the groups change)")?;
    }
    // user-defined modifier roots / categories (any terms of the ontology)
    if !c.custom_modifier.is_empty() {
        mods = c.custom_modifier.iter().map(|p| m.ids[pick(*p, m.ids.len())]).collect();
        let g = ont.modifier_mut();
        *g = mods.iter().map(|t| HpoTermId::from_u32(*t)).collect();
        stats.label("custom-modifier-roots");
    }
    if !c.custom_categories.is_empty() {
        cats = c.custom_categories.iter().map(|p| m.ids[pick(*p, m.ids.len())]).collect();
        let g = ont.categories_mut();
        *g = cats.iter().map(|t| HpoTermId::from_u32(*t)).collect();
        stats.label("custom-categories");
    }
    let group: HpoGroup = c.members.iter().map(|t| HpoTermId::from_u32(*t)).collect();
    let set = HpoSet::new(&ont, group.clone());
    stats.eval(12);
    cmp_set(&set, &members, "new")?;
    // the same members collected from terms instead of ids: in the order of the case (unsorted, repeated), in the
    // ontology's own iteration order, and from two term iterators chained (lower half + upper half + lower half)
    {
        let in_order: HpoGroup = c.members.iter().filter_map(|t| ont.hpo(*t)).collect();
        let by_walk: HpoGroup = ont.hpos().filter(|t| members.contains(&t.id().as_u32())).collect();
        let mid = members.iter().nth(members.len() / 2).copied().unwrap_or(0);
        let chained: HpoGroup = set.iter().filter(|t| t.id().as_u32() >= mid).chain(set.iter()).chain(set.iter().filter(|t| t.id().as_u32() < mid)).collect();
        for (g, how) in [(in_order, "new(terms in the order given)"), (by_walk, "new(terms in the ontology's order)"), (chained, "new(chained term iterators)")] {
            let st = HpoSet::new(&ont, g);
            cmp_set(&st, &members, how)?;
            check_aggregates(&st, &members, &m, &cats, how)?;
            let want: BTreeSet<u32> = members.iter().copied().filter(|t| m.desc[m.i(*t)].intersection(&members).next().is_none()).collect();
            cmp_set(&st.child_nodes(), &want, "child_nodes of a set collected from terms")?;
        }
        if c.members.windows(2).any(|w| w[0] >= w[1]) {
            stats.label("set-collected-from-terms-not-ascending");
        }
    }
    // child_nodes
    let want: BTreeSet<u32> = members.iter().copied().filter(|t| m.desc[m.i(*t)].intersection(&members).next().is_none()).collect();
    let r = guarded(|| set.child_nodes()).map_err(|p| Failure { signature: "set/child_nodes/panic".into(), message: p })?;
    cmp_set(&r, &want, "child_nodes")?;
    // modifier
    let want: BTreeSet<u32> = members.iter().copied().filter(|t| !m.is_modifier_with(*t, &mods)).collect();
    let r = guarded(|| set.without_modifier()).map_err(|p| Failure { signature: "set/without_modifier/panic".into(), message: p })?;
    cmp_set(&r, &want, "without_modifier")?;
    let mut s2 = HpoSet::new(&ont, group.clone());
    guarded(|| s2.remove_modifier()).map_err(|p| Failure { signature: "set/remove_modifier/panic".into(), message: p })?;
    cmp_set(&s2, &want, "remove_modifier")?;
    // obsolete
    let want: BTreeSet<u32> = members.iter().copied().filter(|t| !m.obsolete[m.i(*t)]).collect();
    cmp_set(&set.without_obsolete(), &want, "without_obsolete")?;
    let mut s2 = HpoSet::new(&ont, group.clone());
    s2.remove_obsolete();
    cmp_set(&s2, &want, "remove_obsolete")?;
    // replacement
    let want: BTreeSet<u32> = members.iter().map(|t| m.replacement[m.i(*t)].unwrap_or(*t)).collect();
    cmp_set_ids(&set.with_replaced_obsolete(), &want, &members, &m, "with_replaced_obsolete")?;
    let mut s2 = HpoSet::new(&ont, group.clone());
    s2.replace_obsolete();
    cmp_set_ids(&s2, &want, &members, &m, "replace_obsolete")?;
    if !want.iter().all(|t| m.has(*t)) {
        stats.label("replacement-names-an-id-that-is-not-a-term");
    }
    // the original set is untouched by the copying variants
    cmp_set(&set, &members, "original-after-copying-ops")?;
    check_aggregates(&set, &members, &m, &cats, "")?;
    // ---- one object through a sequence of in-place mutations with aggregate reads in between
    if !c.ops.is_empty() {
        let mut cur: BTreeSet<u32> = members.clone();
        let mut obj = HpoSet::new(&ont, group.clone());
        let mut reads = 0;
        let mut muts_after_read = 0;
        for (step, (op, p)) in c.ops.iter().enumerate() {
            stats.eval(1);
            let before_step = cur.clone();
            let r = guarded(|| match op % 7 {
                0 => {}
                1 => {
                    obj.remove_modifier();
                }
                2 => obj.remove_obsolete(),
                3 => obj.replace_obsolete(),
                4 => {
                    let t = m.ids[pick(*p, m.ids.len())];
                    obj.extend(std::iter::once(ont.hpo(t).unwrap()));
                }
                5 => obj = obj.child_nodes(),
                _ => obj = obj.with_replaced_obsolete(),
            });
            r.map_err(|p| Failure { signature: "sequence/panic".into(), message: format!("step {step} (op {}) panicked: {p}", op % 7) })?;
            match op % 7 {
                0 => reads += 1,
                1 => cur.retain(|t| !m.is_modifier_with(*t, &mods)),
                2 => cur.retain(|t| !m.obsolete[m.i(*t)]),
                3 => cur = cur.iter().map(|t| m.replacement[m.i(*t)].unwrap_or(*t)).collect(),
                4 => {
                    cur.insert(m.ids[pick(*p, m.ids.len())]);
                }
                5 => {
                    let c2 = cur.clone();
                    cur.retain(|t| m.desc[m.i(*t)].intersection(&c2).next().is_none());
                }
                _ => cur = cur.iter().map(|t| m.replacement[m.i(*t)].unwrap_or(*t)).collect(),
            }
            if op % 7 != 0 && reads > 0 {
                muts_after_read += 1;
            }
            let what = format!("sequence/step{}-op{}", step.min(3), op % 7);
            // a replacement may name an id that is not a term: the set then holds an id that no
            // resolving accessor can serve (documented panics); the sequence ends there
            if !cur.iter().all(|t| m.has(*t)) {
                cmp_set_ids(&obj, &cur, &before_step, &m, &what)?;
                break;
            }
            cmp_set(&obj, &cur, &what)?;
            check_aggregates(&obj, &cur, &m, &cats, "/sequence")?;
        }
        if muts_after_read > 0 {
            stats.label("sequence:mutation-after-aggregate-read");
        }
    }
    // Extend
    let mut s3 = HpoSet::new(&ont, HpoGroup::new());
    s3.extend(c.members.iter().map(|t| ont.hpo(*t).unwrap()));
    cmp_set(&s3, &members, "extend")?;

    let anc_pair = members.iter().any(|a| m.anc[m.i(*a)].intersection(&members).next().is_some());
    let has_obs = members.iter().any(|t| m.obsolete[m.i(*t)]);
    let has_repl = members.iter().any(|t| m.replacement[m.i(*t)].is_some());
    let collision = members.iter().any(|t| m.replacement[m.i(*t)].is_some_and(|r| r != *t && members.contains(&r)));
    if members.is_empty() {
        stats.label("empty-set");
    }
    if members.len() > 30 {
        stats.label("members>30");
    }
    if anc_pair {
        stats.label("ancestor-and-descendant-members");
    }
    if collision {
        stats.label("replacement-collides-with-member");
    }
    if members.iter().any(|t| m.is_modifier_with(*t, &mods)) {
        stats.label("modifier-member");
    }
    if members.iter().any(|t| mods.contains(t)) {
        stats.label("modifier-root-member");
    }
    if members.iter().any(|t| m.replacement[m.i(*t)].is_some() && !m.obsolete[m.i(*t)]) {
        stats.label("replaced-but-not-obsolete-member");
    }
    if anc_pair && has_obs && has_repl {
        stats.label("nontrivial");
        stats.nontrivial(hash_json(c));
        stats.sample(|| json!({"members": members, "edges": c.facts.edges, "obsolete": m.ids.iter().filter(|i| m.obsolete[m.i(**i)]).collect::<Vec<_>>(),
            "replacements": m.ids.iter().filter_map(|i| m.replacement[m.i(*i)].map(|r| (i.to_string(), r))).collect::<BTreeMap<_,_>>(), "modifier_roots": mods}));
    }
    Ok(())
}

fn strategy(tier: Tier) -> BoxedStrategy<Case> {
    let max = if tier == Tier::Quick { 18 } else { 50 };
    let cfg = GenCfg::small().terms(2, max).recs(6).standard().with_flags(true).names(NameMode::Plain);
    // large sets: more members than an id group stores inline (30)
    let big = GenCfg::small().terms(44, 72).recs(3).standard().with_flags(false).names(NameMode::Plain);
    let mk = |(facts, picks, path, (ops, custom_modifier, custom_categories)): (Facts, Vec<u16>, PathSel, (Vec<(u8, u16)>, Vec<u16>, Vec<u16>))| {
        let ids: Vec<u32> = facts.terms.iter().map(|t| t.id).collect();
        let members = picks.iter().map(|p| ids[pick(*p, ids.len())]).collect();
        Case { facts, members, path, ops, custom_modifier, custom_categories }
    };
    // half of the cases drive one set object through 1-8 operations
    // one case in five replaces the modifier roots, one in five the categories, by arbitrary terms
    let custom = || prop_oneof![4 => Just(Vec::new()), 1 => vec(any::<u16>(), 1..=3)];
    let ops = move || (prop_oneof![1 => Just(Vec::new()), 1 => vec((0u8..7, any::<u16>()), 1..=8)], custom(), custom());
    let paths = || prop_oneof![6 => Just(PathSel::Bin(3)), 2 => Just(PathSel::Bin(2)), 1 => Just(PathSel::Bin(1)), 2 => Just(PathSel::Jax), 1 => Just(PathSel::JaxT), 1 => Just(PathSel::RoundTrip), 1 => Just(PathSel::BuilderDefaults)];
    prop_oneof![
        12 => (gen::facts(cfg), vec(any::<u16>(), 0..12), paths(), ops()).prop_map(mk),
        1 => (gen::facts(big), vec(any::<u16>(), 30..90), paths(), ops()).prop_map(mk),
    ]
    .boxed()
}

impl Property for C13 {
    fn id(&self) -> &'static str {
        "C13"
    }
    fn rule(&self) -> String {
        "Generated: ontologies (built with defaults through own v1/v2/v3 bytes, as_bytes round trip, JAX files or the Builder, so categories and modifier roots are defined) with obsolete terms, replacements pointing to existing terms (members, non-members, the term itself) and to ids that are not terms (then only len / contains are observed), modifier branches and records of all kinds; in one case of five each the modifier roots / the categories are replaced through modifier_mut() / categories_mut() by arbitrary terms, after the set was questioned once under the groups the ontology was built with; member sets of 0-12 terms drawn with repetition (empty sets, ancestors together with descendants), one case in 13 with 44-72 terms and 30-90 picks (more than the 30 members an id group stores inline). Oracle on the reference model: child_nodes = members without a member among their descendants; without_modifier/remove_modifier drop exactly members that are or descend from a modifier root; without_obsolete/remove_obsolete drop exactly flagged members; with_replaced_obsolete/replace_obsolete map exactly the members naming a replacement (collisions shrink the set); gene/omim/orpha id sets = unions over members; categories() = per-category member counts; information_content gene/omim = -ln(|union|/N) (0 rule; 1e-5); each in-place method equals its copying twin; len/is_empty/contains/get/iter/Extend agree with the member set; copying methods leave the set untouched. Half of the cases additionally drive ONE set object through 1-8 operations (read aggregates / remove_modifier / remove_obsolete / replace_obsolete / extend / child_nodes / continue on a copy), comparing members and all aggregates with the model after every step (state kept inside the object between calls). Fixed cases in their own processes: sets of 130-300 (thorough 66 000) members on ontologies of 900-70 000 terms in two id scatterings, and sets of 2-5 members on a chain of 300 links that lie up to 297 levels apart or all deeper than 255 levels, and the set of all nine terms of an ontology with 33 000-40 000 records per kind. evaluations = set operations. Non-trivial = set contains an ancestor/descendant pair, an obsolete and a replaced member; distinct by hash of the case.".into()
    }
    fn assumptions(&self) -> Vec<String> {
        vec!["replacements name existing terms (a set holding an id that is not a term is outside the documented domain of HpoSet)".into()]
    }
    fn cases(&self, tier: Tier) -> u64 {
        match tier {
            Tier::Quick => 120_000,
            Tier::Thorough => 1_200_000,
        }
    }
    fn required_labels(&self, _tier: Tier) -> Vec<&'static str> {
        vec!["nontrivial", "set-collected-from-terms-not-ascending", "members>30", "empty-set", "ancestor-and-descendant-members", "replacement-collides-with-member", "modifier-member", "modifier-root-member", "replaced-but-not-obsolete-member", "sequence:mutation-after-aggregate-read", "members>255", "replacement-names-an-id-that-is-not-a-term", "custom-modifier-roots", "custom-categories", "members-more-than-255-levels-apart", "unions>32767-records"]
    }
    fn run_generated(&self, tier: Tier, seed: u64, n: u64, stats: &mut Stats) -> Option<(Value, Failure)> {
        run_typed(strategy(tier), seed, n, stats, check)
    }
    fn replay(&self, case: &Value, stats: &mut Stats) -> Result<CheckResult, String> {
        if let Some(b) = case.get("big") {
            // (terms, mult, records per kind, members): sets of more than 255 members on a `bulk_facts`
            // ontology (obsolete terms, replacements, a modifier branch), with an operation sequence
            let v: (u32, u32, u32, u32) = serde_json::from_value(b.clone()).map_err(|e| e.to_string())?;
            stats.cases += 1;
            let facts = super::common::bulk_facts(v.0, v.1, v.2);
            let ids: Vec<u32> = facts.terms.iter().map(|t| t.id).collect();
            let members: Vec<u32> = (0..v.3 as usize).map(|i| ids[(i * 5 + i / 7) % ids.len()]).collect();
            let ops = vec![(0u8, 0u16), (3, 0), (0, 0), (2, 0), (0, 0), (4, 77), (1, 0), (0, 0), (5, 0), (0, 0)];
            let c = Case { facts, members, path: PathSel::Bin(3), ops, custom_modifier: vec![], custom_categories: vec![] };
            let r = check(&c, stats);
            if r.is_ok() {
                stats.label("members>255");
            }
            return Ok(r);
        }
        if let Some(b) = case.get("large") {
            // (genes, omim, orpha): tens of thousands of records on nine terms; the set of all terms has unions of that size
            let v: (u32, u32, u32) = serde_json::from_value(b.clone()).map_err(|e| e.to_string())?;
            stats.cases += 1;
            let facts = super::common::large_record_facts(v.0, v.1, v.2);
            let members: Vec<u32> = facts.terms.iter().map(|t| t.id).collect();
            let ops = vec![(0u8, 0u16), (3, 0), (0, 0)];
            let c = Case { facts, members, path: PathSel::Bin(3), ops, custom_modifier: vec![], custom_categories: vec![] };
            let r = check(&c, stats);
            if r.is_ok() {
                stats.label("unions>32767-records");
            }
            return Ok(r);
        }
        if let Some(b) = case.get("deep") {
            // (depth, mult, member depths): a few members that lie many levels apart on a chain of `depth` links
            let v: (u32, u32, Vec<u32>) = serde_json::from_value(b.clone()).map_err(|e| e.to_string())?;
            stats.cases += 1;
            let facts = super::common::deep_chain_facts(v.0, v.1, 6, 9);
            let members: Vec<u32> = v.2.iter().filter_map(|d| facts.terms.iter().find(|t| t.name == format!("d{d}")).map(|t| t.id)).collect();
            let ops = vec![(0u8, 0u16), (3, 0), (0, 0), (2, 0), (0, 0), (4, 77), (1, 0), (0, 0), (5, 0), (0, 0)];
            let c = Case { facts, members, path: PathSel::Bin(3), ops, custom_modifier: vec![], custom_categories: vec![] };
            let r = check(&c, stats);
            if r.is_ok() {
                stats.label("members-more-than-255-levels-apart");
            }
            return Ok(r);
        }
        replay_typed::<Case, _>(case, stats, check)
    }
    fn isolated_plans(&self, tier: Tier, seed: u64) -> Vec<Value> {
        // (both id scatterings on every seed: some slips depend on the id order of the members)
        let mult = [104_729u32, 7919][(seed % 2) as usize];
        let mut out = vec![
            json!({"big": (1200u32, 104_729u32, 30u32, 300u32)}),
            json!({"big": (900u32, 7919u32, 20u32, 130u32)}),
            json!({"deep": (300u32, 104_729u32, vec![2u32, 299])}),
            json!({"deep": (300u32, 7919u32, vec![3u32, 36, 70, 135, 300])}),
            // both members have more ancestors than an 8-bit counter holds
            json!({"deep": (300u32, 104_729u32, vec![258u32, 299])}),
            json!({"large": (40_000u32, 36_000u32, 33_000u32)}),
            json!({"deep": (300u32, 7919u32, vec![256u32, 257, 290])}),
        ];
        if tier == Tier::Thorough {
            out.push(json!({"big": (70_000u32, mult, 300u32, 66_000u32)}));
            out.push(json!({"big": (5000u32, mult, 300u32, 4100u32)}));
        }
        out
    }
}
