//! C15 — rejected builder calls have no effect; built ontologies have no dangling ids.

use crate::build::Finish;
use crate::gen::{name_strategy, pick, NameMode};
use crate::model::*;
use crate::observe::*;
use crate::runner::*;
use crate::ensure;
use hpo::annotations::{GeneId, OmimDiseaseId, OrphaDiseaseId};
use hpo::builder::Builder;
use hpo::{HpoTermId, Ontology};
use proptest::collection::vec;
use proptest::prelude::*;
use serde::{Deserialize, Serialize};
use serde_json::{json, Value};
use std::collections::BTreeSet;

pub struct C15;

#[derive(Clone, Debug, Serialize, Deserialize, PartialEq)]
pub struct AnnOp {
    pub kind: u8,
    pub rec: u32,
    pub name: String,
    /// None: add_gene / add_*_disease
    pub term: Option<u32>,
}

/// A call history in the only order the typestates allow.
#[derive(Clone, Debug, Serialize, Deserialize, PartialEq)]
pub struct Case {
    /// new_term(name, id) calls, duplicates allowed (first wins)
    pub terms: Vec<(u32, String)>,
    /// add_parent(parent, child) calls over present and absent ids
    pub parents: Vec<(u32, u32)>,
    pub ann: Vec<AnnOp>,
    pub version: (u16, u8, u8),
    /// in which typestate set_hpo_version is called (0..=3)
    pub version_at: u8,
    pub defaults: bool,
    /// add_parent(x, x) as the last add_parent call. For a present x the unchanged Builder accepts the call (and
    /// cannot be finished afterwards: the self-link sends connect_all_terms into an endless recursion), so the
    /// history ends there; should the call be rejected, it has to be without effect like any other rejected call.
    #[serde(default)]
    pub self_parent: Option<u32>,
    /// add_parent(parent, child) that closes a cycle of two or more present terms (`child` is an ancestor of
    /// `parent` by the calls before it); treated like `self_parent`
    #[serde(default)]
    pub closing: Option<(u32, u32)>,
    /// an annotate_* call (present term, new record) made after all others, where the number of records of its kind
    /// has reached the documented limit of 65 535: the unchanged Builder accepts it (and the ontology can then not
    /// be finished), so the history ends there; should it be rejected, it has to be without effect
    #[serde(default)]
    pub at_limit: Option<AnnOp>,
}

struct Run {
    ont: Result<Ontology, String>,
    parent_results: Vec<bool>,
    ann_results: Vec<bool>,
    /// result of the call at the record limit
    at_limit_ok: Option<bool>,
    /// result of the add_parent(x, x) call
    self_parent_ok: Option<bool>,
}

/// Executes the history. With `only_ok` the calls the *model* predicts to fail are left out.
fn execute(c: &Case, only_ok: bool, present: &BTreeSet<u32>) -> Result<Run, String> {
    guarded(|| {
        let mut b = Builder::new();
        if c.version_at == 0 {
            b.set_hpo_version(c.version);
        }
        for (id, name) in &c.terms {
            b.new_term(name, *id);
        }
        let mut b = b.terms_complete();
        if c.version_at == 1 {
            b.set_hpo_version(c.version);
        }
        let mut parent_results = Vec::new();
        for (p, ch) in &c.parents {
            let expect_ok = present.contains(p) && present.contains(ch);
            if only_ok && !expect_ok {
                parent_results.push(false);
                continue;
            }
            parent_results.push(b.add_parent(*p, *ch).is_ok());
        }
        let mut self_parent_ok = None;
        let closers = c.self_parent.map(|x| (x, x)).into_iter().chain(c.closing);
        for (p, ch) in closers.filter(|_| !only_ok) {
            let ok = b.add_parent(p, ch).is_ok();
            self_parent_ok = Some(self_parent_ok.unwrap_or(false) || ok);
            if ok {
                // not continued (see Case::self_parent)
                return Run { ont: Err("history ends at an accepted add_parent call that closes a cycle".into()), parent_results, ann_results: vec![], self_parent_ok, at_limit_ok: None };
            }
        }
        let mut b = b.connect_all_terms();
        if c.version_at == 2 {
            b.set_hpo_version(c.version);
        }
        let mut ann_results = Vec::new();
        for a in &c.ann {
            let expect_ok = a.term.is_none_or(|t| present.contains(&t));
            if only_ok && !expect_ok {
                ann_results.push(false);
                continue;
            }
            let r = match (a.kind as usize, a.term) {
                (GENE, None) => {
                    b.add_gene(&a.name, GeneId::from(a.rec));
                    true
                }
                (OMIM, None) => {
                    b.add_omim_disease(&a.name, OmimDiseaseId::from(a.rec));
                    true
                }
                (_, None) => {
                    b.add_orpha_disease(&a.name, OrphaDiseaseId::from(a.rec));
                    true
                }
                (GENE, Some(t)) => b.annotate_gene(GeneId::from(a.rec), &a.name, HpoTermId::from_u32(t)).is_ok(),
                (OMIM, Some(t)) => b.annotate_omim_disease(OmimDiseaseId::from(a.rec), &a.name, HpoTermId::from_u32(t)).is_ok(),
                (_, Some(t)) => b.annotate_orpha_disease(OrphaDiseaseId::from(a.rec), &a.name, HpoTermId::from_u32(t)).is_ok(),
            };
            ann_results.push(r);
        }
        let mut at_limit_ok = None;
        if let (Some(a), false) = (&c.at_limit, only_ok) {
            let t = HpoTermId::from_u32(a.term.unwrap_or(0));
            let ok = match a.kind as usize {
                GENE => b.annotate_gene(GeneId::from(a.rec), &a.name, t).is_ok(),
                OMIM => b.annotate_omim_disease(OmimDiseaseId::from(a.rec), &a.name, t).is_ok(),
                _ => b.annotate_orpha_disease(OrphaDiseaseId::from(a.rec), &a.name, t).is_ok(),
            };
            at_limit_ok = Some(ok);
            if ok {
                return Run { ont: Err("history ends at an accepted call beyond the record limit".into()), parent_results, ann_results, self_parent_ok, at_limit_ok };
            }
        }
        let ont = match b.calculate_information_content() {
            Err(e) => Err(format!("calculate_information_content: {e}")),
            Ok(mut b) => {
                if c.version_at >= 3 {
                    b.set_hpo_version(c.version);
                }
                if c.defaults {
                    b.build_with_defaults().map_err(|e| format!("build_with_defaults: {e}"))
                } else {
                    Ok(b.build_minimal())
                }
            }
        };
        Run { ont, parent_results, ann_results, self_parent_ok, at_limit_ok }
    })
}

/// The facts described by the successful calls alone.
fn model_facts(c: &Case, present: &BTreeSet<u32>) -> Facts {
    let mut f = Facts { version: c.version, ..Default::default() };
    for (id, name) in &c.terms {
        if !f.has_term(*id) {
            f.terms.push(TermFact { id: *id, name: name.clone(), obsolete: false, replacement: None });
        }
    }
    for (p, ch) in &c.parents {
        if present.contains(p) && present.contains(ch) {
            f.edges.push((*ch, *p));
        }
    }
    for a in &c.ann {
        let ok = a.term.is_none_or(|t| present.contains(&t));
        if !ok {
            continue;
        }
        let k = a.kind as usize;
        if !f.recs[k].iter().any(|r| r.id == a.rec) {
            f.recs[k].push(RecFact { id: a.rec, name: a.name.clone(), terms: vec![] });
        }
        if let Some(t) = a.term {
            f.recs[k].iter_mut().find(|r| r.id == a.rec).unwrap().terms.push(t);
        }
    }
    f
}

pub fn check(c: &Case, stats: &mut Stats) -> CheckResult {
    let present: BTreeSet<u32> = c.terms.iter().map(|t| t.0).collect();
    let full = execute(c, false, &present).map_err(|p| Failure { signature: "builder/panic".into(), message: format!("a Builder call panicked: {p}") })?;
    stats.eval((c.terms.len() + c.parents.len() + c.ann.len()) as u64);
    // 1. return values
    for (i, (p, ch)) in c.parents.iter().enumerate() {
        let exp = present.contains(p) && present.contains(ch);
        let class = match (present.contains(p), present.contains(ch)) {
            (true, true) => "both-present",
            (true, false) => "child-absent",
            (false, true) => "parent-absent",
            _ => "both-absent",
        };
        ensure!(full.parent_results[i] == exp, format!("add_parent/result/{class}"), "add_parent({p},{ch}) returned {}, terms present: {present:?}", if full.parent_results[i] { "Ok" } else { "Err" });
    }
    if let Some((p, ch)) = c.closing {
        ensure!(present.contains(&p) && present.contains(&ch), "harness/bad-case", "the cycle-closing call names present terms");
    }
    match (c.self_parent.or(c.closing.map(|x| x.0)), full.self_parent_ok) {
        (Some(x), Some(true)) if !present.contains(&x) => return fail("add_parent/result/both-absent", format!("add_parent({x},{x}) returned Ok, terms present: {present:?}")),
        (Some(_), Some(true)) => {
            stats.label(if c.self_parent.is_some_and(|x| present.contains(&x)) { "add_parent(x,x)-accepted:history-ends" } else { "cycle-closing-add_parent-accepted:history-ends" });
            return Ok(());
        }
        (Some(x), Some(false)) if present.contains(&x) => stats.label("cycle-closing-add_parent-rejected"),
        _ => {}
    }
    for (i, a) in c.ann.iter().enumerate() {
        let exp = a.term.is_none_or(|t| present.contains(&t));
        ensure!(full.ann_results[i] == exp, format!("annotate-{}/result", KIND_NAMES[a.kind as usize]), "annotate_{}({}, {:?}, {:?}) returned {}", KIND_NAMES[a.kind as usize], a.rec, a.name, a.term, if full.ann_results[i] { "Ok" } else { "Err" });
    }
    match (&c.at_limit, full.at_limit_ok) {
        (Some(_), Some(true)) => {
            stats.label("call-at-the-record-limit-accepted:history-ends");
            return Ok(());
        }
        (Some(_), Some(false)) => stats.label("call-at-the-record-limit-rejected"),
        _ => {}
    }
    let facts = model_facts(c, &present);
    let model = Model::new(&facts);
    let roots = model.has(1) && model.has(118);
    let ont = match (&full.ont, c.defaults && !roots) {
        (Err(_), true) => {
            stats.label("defaults-without-roots");
            return Ok(());
        }
        (Err(e), false) => return fail("build/fails", format!("building failed: {e}")),
        (Ok(_), true) => return fail("build/defaults-without-roots-accepted", "build_with_defaults succeeded without root terms"),
        (Ok(o), false) => o,
    };
    // 2. referential closure: the complete read API walk must not panic
    let snap = guarded(|| observe(ont)).map_err(|p| Failure { signature: "observe-panic".into(), message: p })?;
    if let Some(p) = snap.problems.iter().find(|p| p.starts_with("panic:")) {
        let acc: String = p.split(':').nth(1).unwrap_or("").to_string();
        let cause = if c.parents.iter().any(|(p, ch)| present.contains(p) != present.contains(ch)) && (acc == "children" || acc == "parents" || acc == "all_parents") {
            "after-failed-add_parent"
        } else {
            "after-failed-annotate"
        };
        return fail(format!("dangling-id/{acc}/{cause}"), format!("read API panics on the built ontology: {p}"));
    }
    // 3. equals the model of the successful calls
    let e = Expect { model: &model, defaults: c.defaults, term_name: &ident, rec_name: &ident_rec };
    let diffs = diff_model(&snap, &e, &[Group::Basic, Group::Closure, Group::Annot, Group::Ic, Group::Cats, Group::Problems]);
    if let Some(d) = diffs.first() {
        let kind: String = d.what.split(' ').next().unwrap_or("").chars().take(20).collect();
        let failing_parent = c.parents.iter().any(|(p, ch)| !(present.contains(p) && present.contains(ch))) || full.self_parent_ok == Some(false);
        let failing_ann = c.ann.iter().any(|a| a.term.is_some_and(|t| !present.contains(&t))) || full.at_limit_ok == Some(false);
        let cause = match (failing_parent, failing_ann) {
            (_, true) if ["gene", "omim", "orpha"].contains(&kind.as_str()) => "failed-annotate",
            (true, _) => "failed-add_parent",
            (_, true) => "failed-annotate",
            _ => "no-failing-call",
        };
        return fail(
            format!("rejected-call-has-effect/{cause}/{kind}"),
            format!("ontology differs from the one described by the successful calls: {}", diffs.iter().take(4).map(|d| d.what.clone()).collect::<Vec<_>>().join(" | ")),
        );
    }
    // 4. metamorphic: dropping the failing calls changes nothing
    let reduced = execute(c, true, &present).map_err(|p| Failure { signature: "builder/panic".into(), message: p })?;
    match &reduced.ont {
        Ok(o2) => {
            let s2 = observe(o2);
            if s2 != snap {
                let d = diff_snapshots(&s2, &snap);
                return fail("rejected-call-has-effect/differential", format!("with vs without the failing calls: {}", d.iter().take(3).cloned().collect::<Vec<_>>().join(" | ")));
            }
        }
        Err(e) => return fail("build/fails", format!("building from the successful calls alone failed: {e}")),
    }
    let fp = c.parents.iter().filter(|(p, ch)| present.contains(p) && !present.contains(ch)).count();
    let fp2 = c.parents.iter().filter(|(p, ch)| !present.contains(p) && present.contains(ch)).count();
    let fa = c.ann.iter().filter(|a| a.term.is_some_and(|t| !present.contains(&t))).count();
    if fp > 0 {
        stats.label("failing-add_parent(present parent, absent child)");
    }
    if fp2 > 0 {
        stats.label("failing-add_parent(absent parent, present child)");
    }
    if fa > 0 {
        stats.label("failing-annotate");
    }
    if c.parents.iter().any(|(p, ch)| (*p == 0 && !present.contains(p)) || (*ch == 0 && !present.contains(ch))) || c.ann.iter().any(|a| a.term == Some(0) && !present.contains(&0)) {
        stats.label("absent-id-0");
    }
    {
        let alias = |x: &u32| !present.contains(x) && present.contains(&(x & ((1 << 24) - 1)));
        if c.parents.iter().any(|(p, ch)| alias(p) || alias(ch)) || c.ann.iter().any(|a| a.term.as_ref().is_some_and(alias)) {
            stats.label("absent-id-equal-to-a-present-id-mod-2^24");
        }
    }
    if c.terms.len() != present.len() {
        stats.label("duplicate-new_term");
    }
    if present.len() >= 3 {
        let (lo, hi) = (*present.iter().next().unwrap(), *present.iter().next_back().unwrap());
        let hole = |x: &u32| *x > lo && *x < hi && !present.contains(x);
        if (hi - lo) as usize == present.len() && (c.parents.iter().any(|(p, ch)| hole(p) || hole(ch)) || c.ann.iter().any(|a| a.term.as_ref().is_some_and(hole))) {
            stats.label("absent-id-is-the-only-hole-of-a-run-of-present-ids");
        }
    }
    if c.defaults {
        stats.label("build_with_defaults");
    }
    if c.terms.is_empty() && (c.ann.iter().any(|a| a.term.is_some()) || !c.parents.is_empty()) {
        stats.label("failing-calls-without-any-term");
    }
    if c.ann.iter().any(|a| a.name.len() > 255) {
        stats.label("record-name-longer-than-255-bytes");
    }
    let failed_recs: BTreeSet<(u8, u32)> = c.ann.iter().filter(|a| a.term.is_some_and(|t| !present.contains(&t))).map(|a| (a.kind, a.rec)).collect();
    let reused = c.ann.iter().any(|a| a.term.is_some_and(|t| present.contains(&t)) && failed_recs.contains(&(a.kind, a.rec)));
    let only_failed = failed_recs.iter().any(|(k, r)| !model.direct[*k as usize].contains_key(r));
    if only_failed {
        stats.label("record-mentioned-only-by-failing-calls");
    }
    if fp > 0 && fa > 0 && reused {
        stats.label("nontrivial");
        stats.nontrivial(hash_json(c));
        stats.sample(|| json!({"new_term": c.terms.iter().map(|t| t.0).collect::<Vec<_>>(), "add_parent(parent,child)": c.parents, "results": full.parent_results,
            "annotate": c.ann.iter().map(|a| json!([KIND_NAMES[a.kind as usize], a.rec, a.term])).collect::<Vec<_>>(), "annotate_results": full.ann_results, "defaults": c.defaults}));
    }
    Ok(())
}

fn strategy(tier: Tier) -> BoxedStrategy<Case> {
    let max = if tier == Tier::Quick { 12 } else { 30 };
    (
        // (names of any length: one in six comes from the pool of long / multi-byte / control-character names)
        vec((any::<u32>(), prop_oneof![5 => name_strategy(NameMode::Plain), 1 => name_strategy(NameMode::Rich)]), 0..=max),
        0u8..4,
        vec((any::<u16>(), any::<u16>(), 0u8..10, any::<u32>()), 0..30),
        vec((0u8..3, 0u8..6, any::<u16>(), 0u8..10, any::<u32>()), 0..30),
        vec(prop_oneof![5 => name_strategy(NameMode::Plain), 1 => name_strategy(NameMode::Rich)], 6),
        ((any::<u16>(), any::<u8>(), any::<u8>()), 0u8..4, any::<bool>(), vec(any::<u16>(), 0..3), any::<u16>()),
    )
        .prop_map(|(raw_terms, id_mode, raw_parents, raw_ann, rec_names, (version, version_at, defaults, dups, dup_sel))| {
            // distinct term ids in hidden topological order (index = position)
            let mut ids: Vec<u32> = Vec::new();
            let mut used = BTreeSet::new();
            if defaults {
                for r in [1u32, 118] {
                    ids.push(r);
                    used.insert(r);
                }
            }
            for (i, (r, _)) in raw_terms.iter().enumerate() {
                let mut id = match id_mode {
                    0 => i as u32 + 2,
                    // a run of consecutive ids with exactly one hole (two for longer runs)
                    3 => {
                        let n = raw_terms.len() as u32;
                        let h1 = 1 + raw_terms[0].0 % n.max(2);
                        let h2 = if n > 6 { 2 + (raw_terms[0].0 / 7) % n } else { u32::MAX };
                        let k = i as u32;
                        300 + k + u32::from(k >= h1) + u32::from(k + u32::from(k >= h1) >= h2)
                    }
                    1 => r % 10_000_000,
                    _ => [0, 9_999_999, 2, 3, 500][i % 5] + (i as u32 / 5),
                } % 10_000_000;
                while used.contains(&id) {
                    id = (id + 1) % 10_000_000;
                }
                used.insert(id);
                ids.push(id);
            }
            let mut terms: Vec<(u32, String)> = Vec::new();
            for (i, id) in ids.iter().enumerate() {
                let name = raw_terms.get(i).map(|t| t.1.clone()).unwrap_or_else(|| format!("t{id}"));
                terms.push((*id, name));
            }
            for d in dups {
                if terms.is_empty() {
                    break;
                }
                let t = terms[pick(d, terms.len())].clone();
                terms.push((t.0, format!("{}-again", t.1)));
            }
            let absent = |r: u32| -> u32 {
                // ids that are not terms: neighbours, far values, values beyond the id table
                let mut a = match r % 10 {
                    // aliases of a present id under a power-of-two mask or a decimal modulus
                    8 if !ids.is_empty() => {
                        let t = ids[(r / 10) as usize % ids.len()];
                        let step = [1u32 << 24, 1 << 16, 1 << 20, 10_000_000, 1 << 31, 1 << 25][(r / 160) as usize % 6];
                        t.wrapping_add(step.wrapping_mul(1 + (r / 1000) % 3))
                    }
                    9 if !ids.is_empty() => ids[(r / 10) as usize % ids.len()] | (1 << 24),
                    0 => 10_000_000 + (r / 8) % 1000,
                    1 => u32::MAX - (r / 8) % 7,
                    // borders of the id space: the ids 0, 1, 9_999_999 when they are not terms
                    2 => 0,
                    3 => 9_999_999,
                    4 => 1 + (r / 8) % 3,
                    // a hole inside the range of the present ids, if there is one
                    5 | 6 if ids.len() >= 2 => {
                        let (lo, hi) = (*ids.iter().min().unwrap(), *ids.iter().max().unwrap());
                        let holes: Vec<u32> = (lo..hi).filter(|x| !used.contains(x)).take(40).collect();
                        if holes.is_empty() {
                            r % 10_000_000
                        } else {
                            holes[(r / 16) as usize % holes.len()]
                        }
                    }
                    _ => r % 10_000_000,
                };
                while used.contains(&a) {
                    a = a.wrapping_add(1);
                }
                a
            };
            let n = ids.len();
            let mut parents = Vec::new();
            for (a, b, fail_sel, r) in raw_parents {
                if n == 0 {
                    // a history without any new_term call: every id is absent
                    parents.push((absent(r), absent(r.wrapping_mul(31))));
                    continue;
                }
                let (x, y) = (pick(a, n), pick(b, n));
                let (pi, ci) = (x.min(y), x.max(y));
                match fail_sel {
                    // present pair, parent has the smaller index: keeps the graph acyclic
                    0..=5 => {
                        if pi != ci {
                            parents.push((ids[pi], ids[ci]));
                        }
                    }
                    6 | 7 => parents.push((ids[x], absent(r))),
                    8 => parents.push((absent(r), ids[x])),
                    _ => parents.push((absent(r), absent(r.wrapping_mul(31)))),
                }
            }
            let mut ann = Vec::new();
            for (kind, rec, tp, fail_sel, r) in raw_ann {
                let rec_id = [1u32, 2, 3, 7, u32::MAX, 0][rec as usize];
                let name = rec_names[rec as usize].clone();
                match fail_sel {
                    0..=5 if n > 0 => ann.push(AnnOp { kind, rec: rec_id, name, term: Some(ids[pick(tp, n)]) }),
                    6 => ann.push(AnnOp { kind, rec: rec_id, name, term: None }),
                    // failing call; it carries a different name: a rejected call must not define the record
                    _ => ann.push(AnnOp { kind, rec: rec_id, name: format!("{name} (rejected call)"), term: Some(absent(r)) }),
                }
            }
            // one name per record among the successful calls (first wins anyway)
            // one history in eight closes its add_parent calls with add_parent(x, x), mostly for a present x
            let self_parent = match dup_sel % 16 {
                0 if n > 0 => Some(ids[pick(dup_sel, n)]),
                1 => Some(absent(u32::from(dup_sel))),
                _ => None,
            };
            // and one in sixteen with the reverse of an earlier accepted link (a cycle of two terms) or of a chain of two links
            let closing = if dup_sel % 16 == 2 {
                let ok: Vec<(u32, u32)> = parents.iter().copied().filter(|(p, ch)| used.contains(p) && used.contains(ch)).collect();
                if ok.is_empty() {
                    None
                } else {
                    let (p, ch) = ok[pick(dup_sel, ok.len())];
                    // a grandparent of ch, if the calls name one
                    let up = ok.iter().find(|(_, c2)| *c2 == p).map(|(pp, _)| *pp);
                    Some((ch, if dup_sel & 32 == 0 { up.unwrap_or(p) } else { p }))
                }
            } else {
                None
            };
            Case { terms, parents, ann, version: (version.0 % 10000, version.1, version.2), version_at, defaults, self_parent, closing, at_limit: None }
        })
        .boxed()
}

/// `n` terms (ids 1..=n in a scattered supply order, 1 the root, 118 present), a parent link for
/// every term, plus failing and accepted calls that name the terms around insertion number 65 536.
pub fn bulk_history(n: u32, sel: u32) -> Case {
    let order: Vec<u32> = (0..n).map(|i| 1 + (u64::from(i) * 7919 + u64::from(sel)) as u32 % n).collect::<std::collections::BTreeSet<u32>>().into_iter().collect();
    // (7919 is prime: a permutation of 1..=n unless n is a multiple of it; the set makes it injective anyway)
    let mut ids: Vec<u32> = (0..n).map(|i| 1 + ((u64::from(i) * 7919 + u64::from(sel)) % u64::from(n)) as u32).collect();
    let mut seen = BTreeSet::new();
    ids.retain(|x| seen.insert(*x));
    for x in order {
        if seen.insert(x) {
            ids.push(x);
        }
    }
    let terms: Vec<(u32, String)> = ids.iter().map(|id| (*id, format!("t{id}"))).collect();
    let mut parents: Vec<(u32, u32)> = Vec::new();
    for id in &ids {
        if *id > 1 {
            parents.push((id / 2, *id));
        }
    }
    // calls naming the terms inserted around position 65 535 / 65 536 / 65 537 and absent ids
    let late: Vec<u32> = [65_534usize, 65_535, 65_536, 65_537, ids.len() - 1].iter().filter(|i| **i < ids.len()).map(|i| ids[*i]).collect();
    let absent = [n + 1, n + 65_536, 10_000_000, 0];
    let mut ann = Vec::new();
    for (k, t) in late.iter().enumerate() {
        parents.push((absent[k % absent.len()], *t));
        parents.push((*t, absent[(k + 1) % absent.len()]));
        ann.push(AnnOp { kind: (k % 3) as u8, rec: 10 + k as u32, name: format!("rec{k}"), term: Some(*t) });
        ann.push(AnnOp { kind: (k % 3) as u8, rec: 10 + k as u32, name: format!("rec{k} (rejected call)"), term: Some(absent[k % absent.len()]) });
        ann.push(AnnOp { kind: ((k + 1) % 3) as u8, rec: 100 + k as u32, name: format!("only rejected {k}"), term: Some(absent[(k + 2) % absent.len()]) });
    }
    Case { terms, parents, ann, version: (2024, 3, 4), version_at: 1, defaults: false, self_parent: None, closing: None, at_limit: None }
}

/// A chain of `n` terms (ids ascending or descending with depth) with accepted and rejected annotate_* calls that
/// name terms at many depths: every accepted call has to walk up the whole chain.
pub fn deep_history(n: u32, descending: bool) -> Case {
    let id = |depth: u32| if descending { 1000 + (n - depth) } else { 1000 + depth };
    let terms: Vec<(u32, String)> = (0..n).map(|d| (id(d), format!("depth {d}"))).collect();
    let mut parents: Vec<(u32, u32)> = (1..n).map(|d| (id(d - 1), id(d))).collect();
    parents.push((id(n - 1), 999)); // absent child
    parents.push((5_000_000, id(n / 2))); // absent parent
    let mut ann = Vec::new();
    for (k, d) in [n - 1, n / 2, 31, 32, 64, 65, 66, 67, 127, 128, 129, 255, 256, 257, 258].into_iter().filter(|d| *d < n).enumerate() {
        let kind = (k % 3) as u8;
        ann.push(AnnOp { kind, rec: 10 + k as u32, name: format!("at depth {d}"), term: Some(id(d)) });
        ann.push(AnnOp { kind, rec: 10 + k as u32, name: format!("at depth {d} (rejected call)"), term: Some(999) });
        ann.push(AnnOp { kind: (kind + 1) % 3, rec: 200 + k as u32, name: "only rejected".into(), term: Some(5_000_000 + d) });
    }
    Case { terms, parents, ann, version: (2025, 1, 2), version_at: 2, defaults: false, self_parent: None, closing: None, at_limit: None }
}

impl Property for C15 {
    fn id(&self) -> &'static str {
        "C15"
    }
    fn rule(&self) -> String {
        "Generated call histories in the order the Builder typestates allow: new_term* (none at all in a few histories; duplicates, ids dense / sparse / borders / a run of consecutive ids with one or two holes) -> add_parent* over present and absent ids (present pairs keep the graph acyclic; absent ids are neighbours, holes inside the range of the present ids, far values, the borders 0 / 1 / 9_999_999, values >= 10^7 and near u32::MAX, and aliases of present ids under power-of-two masks / decimal moduli such as id + k*2^24; one history in eight closes with add_parent(x, x) or with the reverse of an accepted link or chain of two links: such a cycle-closing call is accepted on the unchanged tree, where the history then ends, and must be without effect if it is rejected) -> add_gene/add_*_disease and annotate_* over present and absent terms (failing calls carry a different record name; names of any length, some longer than the 255 bytes the binary format stores) -> calculate_information_content -> build_minimal / build_with_defaults, set_hpo_version in a generated typestate; 20-50 % of the calls fail by construction. Deterministic histories in their own processes: more than 65 535 new_term calls; chains of 300 (thorough 3 000) terms with ids ascending / descending with depth and accepted and rejected annotate_* calls at many depths; 65 535 records of one kind and one more annotate call (accepted on the unchanged tree, where the history ends; without effect if it is rejected). Stateful oracle: an interpreter of the history over plain sets predicts every Ok/Err; the built ontology is walked through the complete read API under catch_unwind (every handed-out id must resolve); its snapshot must equal the reference model of the successful calls AND the snapshot of the ontology built from the successful calls alone. evaluations = Builder calls. Non-trivial = >=1 failing add_parent with a present parent, >=1 failing annotate_*, and a later successful annotate on the same record; distinct by hash of the history.".into()
    }
    fn assumptions(&self) -> Vec<String> {
        vec![
            "present parent links are acyclic (a cycle overflows the stack in connect_all_terms; outside every property); a history whose add_parent(x, x) is accepted is not built".into(),
            "new_term ids < 10^7 (larger ids panic in the arena; they are used as absent keys only)".into(),
        ]
    }
    fn cases(&self, tier: Tier) -> u64 {
        match tier {
            Tier::Quick => 200_000,
            Tier::Thorough => 2_000_000,
        }
    }
    fn required_labels(&self, _tier: Tier) -> Vec<&'static str> {
        vec!["nontrivial", "failing-add_parent(present parent, absent child)", "failing-add_parent(absent parent, present child)", "failing-annotate", "duplicate-new_term", "absent-id-0", "build_with_defaults", "record-mentioned-only-by-failing-calls", "absent-id-equal-to-a-present-id-mod-2^24", "bulk>65535-terms", "add_parent(x,x)-accepted:history-ends", "cycle-closing-add_parent-accepted:history-ends", "chain>255-links", "record-name-longer-than-255-bytes", "absent-id-is-the-only-hole-of-a-run-of-present-ids", "failing-calls-without-any-term", "call-at-the-record-limit-accepted:history-ends"]
    }
    fn run_generated(&self, tier: Tier, seed: u64, n: u64, stats: &mut Stats) -> Option<(Value, Failure)> {
        run_typed(strategy(tier), seed, n, stats, check)
    }
    fn replay(&self, case: &Value, stats: &mut Stats) -> Result<CheckResult, String> {
        if let Some(b) = case.get("bulk") {
            // a history with more than 65 535 new_term calls, then accepted and rejected calls that
            // name early, late and absent terms
            let v: (u32, u32) = serde_json::from_value(b.clone()).map_err(|e| e.to_string())?;
            stats.cases += 1;
            let r = check(&bulk_history(v.0, v.1), stats);
            if r.is_ok() {
                stats.label("bulk>65535-terms");
            }
            return Ok(r);
        }
        if let Some(b) = case.get("limit") {
            // 65 535 records of one kind on two terms, then one more annotate call for a new record
            let kind: u8 = serde_json::from_value(b.clone()).map_err(|e| e.to_string())?;
            stats.cases += 1;
            let terms = vec![(1u32, "All".to_string()), (118u32, "Phenotypic abnormality".to_string())];
            let ann: Vec<AnnOp> = (0..65_535u32).map(|i| AnnOp { kind, rec: i + 1, name: format!("r{i}"), term: Some(if i % 2 == 0 { 118 } else { 1 }) }).collect();
            let c = Case { terms, parents: vec![(1, 118)], ann, version: (2025, 6, 7), version_at: 0, defaults: false, self_parent: None, closing: None,
                at_limit: Some(AnnOp { kind, rec: 70_000, name: "one too many".into(), term: Some(118) }) };
            return Ok(check(&c, stats));
        }
        if let Some(b) = case.get("deep") {
            let v: (u32, bool) = serde_json::from_value(b.clone()).map_err(|e| e.to_string())?;
            stats.cases += 1;
            let r = check(&deep_history(v.0, v.1), stats);
            if r.is_ok() {
                stats.label("chain>255-links");
            }
            return Ok(r);
        }
        replay_typed::<Case, _>(case, stats, check)
    }
    fn isolated_plans(&self, tier: Tier, seed: u64) -> Vec<Value> {
        let mut out = vec![json!({"bulk": (65_560u32, (seed % 7) as u32)}), json!({"deep": (300u32, true)}), json!({"deep": (300u32, false)}), json!({"limit": (seed % 3) as u8})];
        if tier == Tier::Thorough {
            out.push(json!({"bulk": (131_200u32, (seed % 5) as u32)}));
            out.push(json!({"deep": (3_000u32, true)}));
            out.push(json!({"deep": (2_000u32, false)}));
        }
        out
    }
}

#[allow(dead_code)]
fn _unused(_: Finish) {}
