//! Observer: walks the complete read API of an `Ontology` into a sorted,
//! comparable [`Snapshot`]. Every accessor that resolves ids runs under
//! `catch_unwind`; a panic is recorded with the accessor and id.

use crate::model::*;
use hpo::annotations::{AnnotationId, Disease};
use hpo::term::InformationContentKind;
use hpo::{HpoTermId, Ontology};
use serde::Serialize;
use std::cell::RefCell;
use std::collections::{BTreeMap, BTreeSet};
use std::panic::{catch_unwind, AssertUnwindSafe};

thread_local! {
    static LAST_PANIC: RefCell<String> = const { RefCell::new(String::new()) };
}

/// Installs a silent panic hook that remembers the message per thread.
pub fn install_quiet_panic_hook() {
    std::panic::set_hook(Box::new(|info| {
        let msg = if let Some(s) = info.payload().downcast_ref::<&str>() {
            (*s).to_string()
        } else if let Some(s) = info.payload().downcast_ref::<String>() {
            s.clone()
        } else {
            "<non-string panic>".to_string()
        };
        let loc = info
            .location()
            .map(|l| format!("{}:{}", l.file(), l.line()))
            .unwrap_or_default();
        LAST_PANIC.with(|p| *p.borrow_mut() = format!("{msg} @ {loc}"));
    }));
}

pub fn last_panic() -> String {
    LAST_PANIC.with(|p| p.borrow().clone())
}

/// Runs `f`, returning `Err(panic message)` if it panicked.
pub fn guarded<T>(f: impl FnOnce() -> T) -> Result<T, String> {
    match catch_unwind(AssertUnwindSafe(f)) {
        Ok(v) => Ok(v),
        Err(_) => Err(last_panic()),
    }
}

#[derive(Clone, Debug, PartialEq, Serialize)]
pub struct TermSnap {
    pub name: String,
    pub obsolete: bool,
    pub replacement: Option<u32>,
    pub replaced_by: Option<u32>,
    pub parents: Vec<u32>,
    pub children: Vec<u32>,
    pub all_parents: Vec<u32>,
    pub recs: [Vec<u32>; 3],
    /// bit patterns of the three f32 (exact comparison between snapshots)
    pub ic_bits: [u32; 3],
    pub is_modifier: bool,
    pub categories: Vec<u32>,
}

impl TermSnap {
    pub fn ic(&self, k: usize) -> f32 {
        f32::from_bits(self.ic_bits[k])
    }
}

#[derive(Clone, Debug, PartialEq, Serialize)]
pub struct RecSnap {
    pub name: String,
    pub terms: Vec<u32>,
}

#[derive(Clone, Debug, PartialEq, Serialize, Default)]
pub struct Snapshot {
    pub version: String,
    pub len: usize,
    pub terms: BTreeMap<u32, TermSnap>,
    pub recs: [BTreeMap<u32, RecSnap>; 3],
    pub categories: Vec<u32>,
    pub modifier: Vec<u32>,
    /// internal inconsistencies of the read API (id accessor vs resolving
    /// iterator, duplicates in iteration, panics)
    pub problems: Vec<String>,
}

fn ids_of(g: &hpo::term::HpoGroup) -> Vec<u32> {
    g.iter().map(|i| i.as_u32()).collect()
}

fn sorted_unique(v: &mut Vec<u32>, what: &str, id: u32, problems: &mut Vec<String>) {
    let n = v.len();
    v.sort_unstable();
    v.dedup();
    if v.len() != n {
        problems.push(format!("dup:{what}:{id}"));
    }
}

fn check_group_sorted(g: &[u32], what: &str, id: u32, problems: &mut Vec<String>) {
    if g.windows(2).any(|w| w[0] >= w[1]) {
        problems.push(format!("unsorted:{what}:{id}:{g:?}"));
    }
}

/// Iterator protocol: whatever an iterator reports about itself after it has advanced (count, size_hint, nth, last,
/// fold) must agree with what `next()` still yields. `mk` makes a fresh iterator, `all` is what a plain walk yielded.
/// The methods are called on the library's iterator itself (an adaptor such as `map` would answer them on its own).
pub fn iter_protocol<I: Iterator>(mk: impl Fn() -> I, key: impl Fn(I::Item) -> u32, all: &[u32], what: &str, problems: &mut Vec<String>) {
    let n = all.len();
    let mut ks = vec![0, 1, 2, n / 2, n.saturating_sub(1), n, n + 1];
    ks.sort_unstable();
    ks.dedup();
    let r = guarded(|| {
        let mut bad: Vec<String> = Vec::new();
        for &k in &ks {
            let rem = n.saturating_sub(k);
            let mut it = mk();
            for _ in 0..k {
                it.next();
            }
            let (lo, hi) = it.size_hint();
            if lo > rem || hi.is_some_and(|h| h < rem) {
                bad.push(format!("{what}: size_hint ({lo},{hi:?}) after {k} of {n} items"));
            }
            let c = it.count();
            if c != rem {
                bad.push(format!("{what}: count() = {c} after {k} of {n} items"));
            }
            let c = mk().skip(k).count();
            if c != rem {
                bad.push(format!("{what}: skip({k}).count() = {c} of {n} items"));
            }
            if mk().nth(k).map(&key) != all.get(k).copied() {
                bad.push(format!("{what}: nth({k}) of {n} items"));
            }
            let mut it = mk();
            for _ in 0..k {
                it.next();
            }
            let want_last = if k < n { all.last().copied() } else { None };
            if it.last().map(&key) != want_last {
                bad.push(format!("{what}: last() after {k} of {n} items"));
            }
            let mut it = mk();
            for _ in 0..k {
                it.next();
            }
            let rest: Vec<u32> = it.fold(Vec::new(), |mut v, x| {
                v.push(key(x));
                v
            });
            if rest[..] != all[k.min(n)..] {
                bad.push(format!("{what}: fold after {k} of {n} items"));
            }
        }
        bad
    });
    match r {
        Ok(bad) => problems.extend(bad.into_iter().take(2)),
        Err(e) => problems.push(format!("panic:{what}:protocol:{e}")),
    }
}

/// Walks the whole read API.
pub fn observe(o: &Ontology) -> Snapshot {
    let mut problems: Vec<String> = Vec::new();
    let mut s = Snapshot {
        version: o.hpo_version(),
        len: o.len(),
        ..Default::default()
    };
    if o.is_empty() != (o.len() == 0) {
        problems.push("is_empty!=len==0".into());
    }
    s.categories = ids_of(o.categories());
    s.modifier = ids_of(o.modifier());
    check_group_sorted(&s.categories, "categories", 0, &mut problems);
    check_group_sorted(&s.modifier, "modifier", 0, &mut problems);

    // three ways of iterating
    let it1: Result<Vec<u32>, String> = guarded(|| o.iter().map(|t| t.id().as_u32()).collect());
    let it2: Result<Vec<u32>, String> = guarded(|| o.hpos().map(|t| t.id().as_u32()).collect());
    let it3: Result<Vec<u32>, String> =
        guarded(|| o.into_iter().map(|t| t.id().as_u32()).collect());
    let mut all_ids: Vec<u32> = match it1 {
        Ok(v) => v,
        Err(e) => {
            problems.push(format!("panic:iter:{e}"));
            Vec::new()
        }
    };
    for (nm, it) in [("hpos", it2), ("into_iter", it3)] {
        match it {
            Ok(v) => {
                if v != all_ids {
                    problems.push(format!("iter!={nm}"));
                }
            }
            Err(e) => problems.push(format!("panic:{nm}:{e}")),
        }
    }
    iter_protocol(|| o.iter(), |t| t.id().as_u32(), &all_ids, "iter", &mut problems);
    iter_protocol(|| o.hpos(), |t| t.id().as_u32(), &all_ids, "hpos", &mut problems);
    iter_protocol(|| o.into_iter(), |t| t.id().as_u32(), &all_ids, "into_iter", &mut problems);
    if all_ids.len() != o.len() {
        problems.push(format!("iter_count {} != len {}", all_ids.len(), o.len()));
    }
    sorted_unique(&mut all_ids, "iter", 0, &mut problems);

    let protocol_terms: Vec<u32> = {
        let mut v: Vec<(usize, u32)> = all_ids.iter().filter_map(|i| o.hpo(*i).map(|t| (t.all_parent_ids().len() + t.children_ids().len(), *i))).collect();
        v.sort_unstable_by(|a, b| b.cmp(a));
        v.into_iter().take(3).map(|x| x.1).collect()
    };
    for id in &all_ids {
        let id = *id;
        let Some(t) = o.hpo(id) else {
            problems.push(format!("iterated id does not resolve:{id}"));
            continue;
        };
        if t.id().as_u32() != id {
            problems.push(format!("hpo({id}).id()={}", t.id()));
        }
        let parents = ids_of(t.parent_ids());
        let children = ids_of(t.children_ids());
        let all_parents = ids_of(t.all_parent_ids());
        check_group_sorted(&parents, "parent_ids", id, &mut problems);
        check_group_sorted(&children, "children_ids", id, &mut problems);
        check_group_sorted(&all_parents, "all_parent_ids", id, &mut problems);
        for (nm, want, got) in [
            (
                "parents",
                &parents,
                guarded(|| t.parents().map(|x| x.id().as_u32()).collect::<Vec<u32>>()),
            ),
            (
                "children",
                &children,
                guarded(|| t.children().map(|x| x.id().as_u32()).collect::<Vec<u32>>()),
            ),
            (
                "all_parents",
                &all_parents,
                guarded(|| t.all_parents().map(|x| x.id().as_u32()).collect::<Vec<u32>>()),
            ),
        ] {
            match got {
                Ok(v) => {
                    if &v != want {
                        problems.push(format!("{nm}()!={nm}_ids:{id}"));
                    }
                }
                Err(e) => problems.push(format!("panic:{nm}:{id}:{e}")),
            }
        }
        // the relatives' iterators and the id group's own iterator, for the few terms with the most ancestors
        if protocol_terms.contains(&id) {
            iter_protocol(|| t.parents(), |x| x.id().as_u32(), &parents, "parents", &mut problems);
            iter_protocol(|| t.children(), |x| x.id().as_u32(), &children, "children", &mut problems);
            iter_protocol(|| t.all_parents(), |x| x.id().as_u32(), &all_parents, "all_parents", &mut problems);
            iter_protocol(|| t.all_parent_ids().iter(), |x| x.as_u32(), &all_parents, "all_parent_ids.iter", &mut problems);
        }
        let mut recs: [Vec<u32>; 3] = Default::default();
        recs[GENE] = t.gene_ids().iter().map(|g| g.as_u32()).collect();
        recs[OMIM] = t.omim_disease_ids().iter().map(|g| g.as_u32()).collect();
        recs[ORPHA] = t.orpha_disease_ids().iter().map(|g| g.as_u32()).collect();
        for k in 0..3 {
            sorted_unique(&mut recs[k], KIND_NAMES[k], id, &mut problems);
        }
        let res: [Result<Vec<u32>, String>; 3] = [
            guarded(|| t.genes().map(|g| g.id().as_u32()).collect()),
            guarded(|| t.omim_diseases().map(|g| g.id().as_u32()).collect()),
            guarded(|| t.orpha_diseases().map(|g| g.id().as_u32()).collect()),
        ];
        for (k, r) in res.into_iter().enumerate() {
            match r {
                Ok(mut v) => {
                    v.sort_unstable();
                    if v != recs[k] {
                        problems.push(format!("{}s()!=ids:{id}", KIND_NAMES[k]));
                    }
                }
                Err(e) => problems.push(format!("panic:{}s:{id}:{e}", KIND_NAMES[k])),
            }
        }
        let ic = t.information_content();
        let ic_vals = [ic.gene(), ic.omim_disease(), ic.orpha_disease()];
        let kinds = [
            InformationContentKind::Gene,
            InformationContentKind::Omim,
            InformationContentKind::Orpha,
        ];
        for k in 0..3 {
            if ic.get_kind(&kinds[k]).to_bits() != ic_vals[k].to_bits() {
                problems.push(format!("get_kind!=accessor:{}:{id}", KIND_NAMES[k]));
            }
        }
        let replaced_by = match guarded(|| t.replaced_by().map(|r| r.id().as_u32())) {
            Ok(v) => v,
            Err(e) => {
                problems.push(format!("panic:replaced_by:{id}:{e}"));
                None
            }
        };
        let is_modifier = guarded(|| t.is_modifier()).unwrap_or_else(|e| {
            problems.push(format!("panic:is_modifier:{id}:{e}"));
            false
        });
        let categories = guarded(|| {
            t.categories()
                .into_iter()
                .map(|c| c.as_u32())
                .collect::<Vec<u32>>()
        })
        .unwrap_or_else(|e| {
            problems.push(format!("panic:categories:{id}:{e}"));
            vec![]
        });
        s.terms.insert(
            id,
            TermSnap {
                name: t.name().to_string(),
                obsolete: t.is_obsolete(),
                replacement: t.replacement_id().map(|r| r.as_u32()),
                replaced_by,
                parents,
                children,
                all_parents,
                recs,
                ic_bits: [
                    ic_vals[0].to_bits(),
                    ic_vals[1].to_bits(),
                    ic_vals[2].to_bits(),
                ],
                is_modifier,
                categories,
            },
        );
    }

    // records
    let mut n = [0usize; 3];
    for g in o.genes() {
        n[GENE] += 1;
        let id = g.id().as_u32();
        let terms = ids_of(g.hpo_terms());
        check_group_sorted(&terms, "gene.hpo_terms", id, &mut problems);
        if g.symbol() != g.name() {
            problems.push(format!("gene symbol!=name:{id}"));
        }
        match o.gene(g.id()) {
            Some(g2) if g2.id() == g.id() => {}
            _ => problems.push(format!("gene({id}) lookup mismatch")),
        }
        match guarded(|| {
            g.to_hpo_set(o)
                .iter()
                .map(|t| t.id().as_u32())
                .collect::<Vec<u32>>()
        }) {
            Ok(v) => {
                if v != terms {
                    problems.push(format!("gene.to_hpo_set!=hpo_terms:{id}"));
                }
            }
            Err(e) => problems.push(format!("panic:gene.to_hpo_set:{id}:{e}")),
        }
        if s.recs[GENE]
            .insert(
                id,
                RecSnap {
                    name: g.name().to_string(),
                    terms,
                },
            )
            .is_some()
        {
            problems.push(format!("dup gene in genes():{id}"));
        }
    }
    for d in o.omim_diseases() {
        n[OMIM] += 1;
        let id = d.id().as_u32();
        let terms = ids_of(d.hpo_terms());
        check_group_sorted(&terms, "omim.hpo_terms", id, &mut problems);
        match o.omim_disease(d.id()) {
            Some(d2) if d2.id() == d.id() => {}
            _ => problems.push(format!("omim_disease({id}) lookup mismatch")),
        }
        match guarded(|| {
            d.to_hpo_set(o)
                .iter()
                .map(|t| t.id().as_u32())
                .collect::<Vec<u32>>()
        }) {
            Ok(v) => {
                if v != terms {
                    problems.push(format!("omim.to_hpo_set!=hpo_terms:{id}"));
                }
            }
            Err(e) => problems.push(format!("panic:omim.to_hpo_set:{id}:{e}")),
        }
        if s.recs[OMIM]
            .insert(
                id,
                RecSnap {
                    name: d.name().to_string(),
                    terms,
                },
            )
            .is_some()
        {
            problems.push(format!("dup omim in omim_diseases():{id}"));
        }
    }
    for d in o.orpha_diseases() {
        n[ORPHA] += 1;
        let id = d.id().as_u32();
        let terms = ids_of(d.hpo_terms());
        check_group_sorted(&terms, "orpha.hpo_terms", id, &mut problems);
        match o.orpha_disease(d.id()) {
            Some(d2) if d2.id() == d.id() => {}
            _ => problems.push(format!("orpha_disease({id}) lookup mismatch")),
        }
        match guarded(|| {
            d.to_hpo_set(o)
                .iter()
                .map(|t| t.id().as_u32())
                .collect::<Vec<u32>>()
        }) {
            Ok(v) => {
                if v != terms {
                    problems.push(format!("orpha.to_hpo_set!=hpo_terms:{id}"));
                }
            }
            Err(e) => problems.push(format!("panic:orpha.to_hpo_set:{id}:{e}")),
        }
        if s.recs[ORPHA]
            .insert(
                id,
                RecSnap {
                    name: d.name().to_string(),
                    terms,
                },
            )
            .is_some()
        {
            problems.push(format!("dup orpha in orpha_diseases():{id}"));
        }
    }
    s.problems = problems;
    s
}

/// Which groups of snapshot fields to compare with the model.
#[derive(Clone, Copy, Debug, PartialEq, Eq)]
pub enum Group {
    /// term set, names, flags, replacement, version
    Basic,
    /// parents / children / all_parents (C01)
    Closure,
    /// inherited record sets and records' direct terms (C02)
    Annot,
    /// information content (C03)
    Ic,
    /// categories / modifier (C19); only when defaults are expected
    Cats,
    /// read API self-consistency problems (panics, id vs iterator)
    Problems,
}

#[derive(Clone, Debug)]
pub struct Diff {
    pub group: Group,
    pub what: String,
}

pub struct Expect<'a> {
    pub model: &'a Model,
    /// expected categories / modifier roots (`None`: build_minimal → both empty)
    pub defaults: bool,
    /// map applied to expected term names (e.g. 255 byte cut after a binary round trip)
    pub term_name: &'a dyn Fn(&str) -> String,
    pub rec_name: &'a dyn Fn(usize, &str) -> String,
}

pub fn ident(s: &str) -> String {
    s.to_string()
}
pub fn ident_rec(_k: usize, s: &str) -> String {
    s.to_string()
}

fn v(s: &BTreeSet<u32>) -> Vec<u32> {
    s.iter().copied().collect()
}

/// Compares a snapshot with what the model says; returns all differences.
pub fn diff_model(s: &Snapshot, e: &Expect, groups: &[Group]) -> Vec<Diff> {
    let m = e.model;
    let mut out = Vec::new();
    let want = |g: Group| groups.contains(&g);
    macro_rules! d {
        ($g:expr, $($arg:tt)*) => { out.push(Diff { group: $g, what: format!($($arg)*) }) };
    }
    if want(Group::Problems) {
        for p in &s.problems {
            d!(Group::Problems, "{p}");
        }
    }
    let snap_ids: Vec<u32> = s.terms.keys().copied().collect();
    if want(Group::Basic) {
        if s.version != version_string(m.version) {
            d!(Group::Basic, "version {} != {}", s.version, version_string(m.version));
        }
        if s.len != m.len() {
            d!(Group::Basic, "len {} != {}", s.len, m.len());
        }
        if snap_ids != m.ids {
            d!(Group::Basic, "term ids {:?} != {:?}", snap_ids, m.ids);
        }
    }
    let (cats, mods) = if e.defaults {
        (
            m.default_categories().unwrap_or_default(),
            m.default_modifier().unwrap_or_default(),
        )
    } else {
        (BTreeSet::new(), BTreeSet::new())
    };
    if want(Group::Cats) {
        if s.categories != v(&cats) {
            d!(Group::Cats, "categories {:?} != {:?}", s.categories, v(&cats));
        }
        if s.modifier != v(&mods) {
            d!(Group::Cats, "modifier {:?} != {:?}", s.modifier, v(&mods));
        }
    }
    for (i, id) in m.ids.iter().enumerate() {
        let Some(t) = s.terms.get(id) else { continue };
        if want(Group::Basic) {
            let en = (e.term_name)(&m.names[i]);
            if t.name != en {
                d!(Group::Basic, "name of {id}: {:?} != {:?}", t.name, en);
            }
            if t.obsolete != m.obsolete[i] {
                d!(Group::Basic, "obsolete of {id}: {} != {}", t.obsolete, m.obsolete[i]);
            }
            if t.replacement != m.replacement[i] {
                d!(
                    Group::Basic,
                    "replacement of {id}: {:?} != {:?}",
                    t.replacement,
                    m.replacement[i]
                );
            }
            let rb = m.replacement[i].filter(|r| m.has(*r));
            if t.replaced_by != rb {
                d!(Group::Basic, "replaced_by of {id}: {:?} != {:?}", t.replaced_by, rb);
            }
        }
        if want(Group::Closure) {
            if t.parents != v(&m.parents[i]) {
                d!(Group::Closure, "parents of {id}: {:?} != {:?}", t.parents, v(&m.parents[i]));
            }
            if t.children != v(&m.children[i]) {
                d!(
                    Group::Closure,
                    "children of {id}: {:?} != {:?}",
                    t.children,
                    v(&m.children[i])
                );
            }
            if t.all_parents != v(&m.anc[i]) {
                d!(
                    Group::Closure,
                    "all_parents of {id}: {:?} != {:?}",
                    t.all_parents,
                    v(&m.anc[i])
                );
            }
        }
        if want(Group::Annot) {
            for k in 0..3 {
                if t.recs[k] != v(&m.inh[k][i]) {
                    d!(
                        Group::Annot,
                        "{} ids of {id}: {:?} != {:?}",
                        KIND_NAMES[k],
                        t.recs[k],
                        v(&m.inh[k][i])
                    );
                }
            }
        }
        if want(Group::Ic) {
            for k in 0..3 {
                let x = t.ic(k);
                let y = m.ic(k, *id);
                let n = m.inh[k][i].len();
                let total = m.direct[k].len();
                if !x.is_finite() || x < 0.0 {
                    d!(Group::Ic, "ic {} of {id} not finite/>=0: {x}", KIND_NAMES[k]);
                } else if (n == 0 || total == 0) && x != 0.0 {
                    d!(Group::Ic, "ic {} of {id} must be 0 (n={n},N={total}): {x}", KIND_NAMES[k]);
                } else if !close_f32(x, y, 1e-5) {
                    d!(
                        Group::Ic,
                        "ic {} of {id}: {x} != {y} (n={n},N={total})",
                        KIND_NAMES[k]
                    );
                }
            }
        }
        if want(Group::Cats) {
            let im = m.is_modifier_with(*id, &mods);
            if t.is_modifier != im {
                d!(Group::Cats, "is_modifier of {id}: {} != {im}", t.is_modifier);
            }
            let cs = m.categories_with(*id, &cats);
            if t.categories != cs {
                d!(Group::Cats, "categories of {id}: {:?} != {:?}", t.categories, cs);
            }
        }
    }
    if want(Group::Ic) {
        // monotone along ancestor -> descendant among annotated terms (exact)
        for (i, id) in m.ids.iter().enumerate() {
            let Some(t) = s.terms.get(id) else { continue };
            for k in 0..3 {
                if m.inh[k][i].is_empty() {
                    continue;
                }
                for dsc in &m.desc[i] {
                    let Some(td) = s.terms.get(dsc) else { continue };
                    if !m.inh[k][m.i(*dsc)].is_empty() && td.ic(k) < t.ic(k) {
                        d!(
                            Group::Ic,
                            "ic {} decreases from ancestor {id} ({}) to descendant {dsc} ({})",
                            KIND_NAMES[k],
                            t.ic(k),
                            td.ic(k)
                        );
                    }
                }
            }
        }
    }
    if want(Group::Annot) {
        for k in 0..3 {
            let got: Vec<u32> = s.recs[k].keys().copied().collect();
            let exp: Vec<u32> = m.direct[k].keys().copied().collect();
            if got != exp {
                d!(Group::Annot, "{} record ids {:?} != {:?}", KIND_NAMES[k], got, exp);
            }
            for (rid, (name, terms)) in &m.direct[k] {
                let Some(r) = s.recs[k].get(rid) else { continue };
                if r.terms != v(terms) {
                    d!(
                        Group::Annot,
                        "{} {rid} hpo_terms {:?} != {:?}",
                        KIND_NAMES[k],
                        r.terms,
                        v(terms)
                    );
                }
                if want(Group::Basic) {
                    let en = (e.rec_name)(k, name);
                    if r.name != en {
                        d!(Group::Basic, "{} {rid} name {:?} != {:?}", KIND_NAMES[k], r.name, en);
                    }
                }
            }
        }
    }
    out
}

/// Differences between two snapshots (field level, for messages).
pub fn diff_snapshots(a: &Snapshot, b: &Snapshot) -> Vec<String> {
    let mut out = Vec::new();
    if a.version != b.version {
        out.push(format!("version {} vs {}", a.version, b.version));
    }
    if a.len != b.len {
        out.push(format!("len {} vs {}", a.len, b.len));
    }
    if a.categories != b.categories {
        out.push(format!("categories {:?} vs {:?}", a.categories, b.categories));
    }
    if a.modifier != b.modifier {
        out.push(format!("modifier {:?} vs {:?}", a.modifier, b.modifier));
    }
    let ka: Vec<u32> = a.terms.keys().copied().collect();
    let kb: Vec<u32> = b.terms.keys().copied().collect();
    if ka != kb {
        out.push(format!("term ids {ka:?} vs {kb:?}"));
    }
    for (id, ta) in &a.terms {
        if let Some(tb) = b.terms.get(id) {
            if ta != tb {
                out.push(format!("term {id}: {ta:?} vs {tb:?}"));
            }
        }
    }
    for k in 0..3 {
        let ka: Vec<u32> = a.recs[k].keys().copied().collect();
        let kb: Vec<u32> = b.recs[k].keys().copied().collect();
        if ka != kb {
            out.push(format!("{} ids {ka:?} vs {kb:?}", KIND_NAMES[k]));
        }
        for (id, ra) in &a.recs[k] {
            if let Some(rb) = b.recs[k].get(id) {
                if ra != rb {
                    out.push(format!("{} {id}: {ra:?} vs {rb:?}", KIND_NAMES[k]));
                }
            }
        }
    }
    if a.problems != b.problems {
        out.push(format!("problems {:?} vs {:?}", a.problems, b.problems));
    }
    out
}

pub fn tid(x: u32) -> HpoTermId {
    HpoTermId::from_u32(x)
}
