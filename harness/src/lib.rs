pub mod build;
pub mod exact;
pub mod fuzzdec;
pub mod gen;
pub mod model;
pub mod observe;
pub mod props;
pub mod runner;
