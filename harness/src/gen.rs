//! proptest strategies. Everything is generated *constructively* as raw picks
//! (`RawFacts`) and mapped to `Facts` by a pure function, so proptest can
//! shrink the raw value and the mapped value stays well-formed (acyclic, ids
//! injective, links to existing terms).

use crate::model::*;
use proptest::prelude::*;
use proptest::collection::vec;
use std::collections::BTreeSet;

pub const ID_SPACE: u32 = 10_000_000;

#[derive(Clone, Copy, Debug, PartialEq, Eq)]
pub enum NameMode {
    /// short, mostly ASCII, some with ": " and multi-byte
    Plain,
    /// also long names around the 255 byte limit, multi-byte straddling it
    Rich,
    /// like Rich but term and gene names capped at 255 bytes (encodable by the own encoder)
    Capped,
}

#[derive(Clone, Debug)]
pub struct GenCfg {
    pub max_terms: usize,
    pub min_terms: usize,
    /// contains HP:0000001 and HP:0000118
    pub standard: bool,
    /// obsolete flags and replacements
    pub flags: bool,
    pub dangling_repl: bool,
    pub max_recs: usize,
    pub names: NameMode,
    /// records without any term
    pub empty_recs: bool,
    /// duplicated `new_term` calls (first wins)
    pub dup_terms: bool,
    /// ids at the borders 0 / 9_999_999
    pub border_ids: bool,
    /// occasionally add several hundred records of one kind (more than 255) and
    /// one record linked to (almost) every term
    pub bulk_recs: bool,
    /// restrict the graph shapes (index into the shape table of `realise`); used where the
    /// library's path search is exponential in the number of alternative routes
    pub shapes: Option<&'static [u8]>,
    /// some annotation calls / rows spell the record name differently (only where names are not compared)
    pub alt_names: bool,
}

impl GenCfg {
    pub fn small() -> Self {
        GenCfg {
            max_terms: 24,
            min_terms: 1,
            standard: false,
            flags: false,
            dangling_repl: false,
            max_recs: 8,
            names: NameMode::Plain,
            empty_recs: true,
            dup_terms: false,
            border_ids: true,
            bulk_recs: false,
            shapes: None,
            alt_names: false,
        }
    }
    pub fn standard(mut self) -> Self {
        self.standard = true;
        self.min_terms = self.min_terms.max(2);
        self
    }
    pub fn with_flags(mut self, dangling: bool) -> Self {
        self.flags = true;
        self.dangling_repl = dangling;
        self
    }
    pub fn terms(mut self, min: usize, max: usize) -> Self {
        self.min_terms = min;
        self.max_terms = max;
        self
    }
    pub fn names(mut self, n: NameMode) -> Self {
        self.names = n;
        self
    }
    pub fn recs(mut self, n: usize) -> Self {
        self.max_recs = n;
        self
    }
    pub fn shapes(mut self, s: &'static [u8]) -> Self {
        self.shapes = Some(s);
        self
    }
    pub fn alt_names(mut self) -> Self {
        self.alt_names = true;
        self
    }
    pub fn bulk(mut self) -> Self {
        self.bulk_recs = true;
        self
    }
    pub fn no_empty_recs(mut self) -> Self {
        self.empty_recs = false;
        self
    }
}

#[derive(Clone, Debug)]
pub struct RawNode {
    pub nparents: u8,
    pub picks: [u16; 3],
    pub idr: u32,
    pub name: String,
    pub obsolete: bool,
    pub repl: Option<(u8, u16)>,
}

#[derive(Clone, Debug)]
pub struct RawRec {
    pub idr: u8,
    pub name: String,
    /// (term pick, optionally also link a relative: (up/down, pick))
    pub links: Vec<(u16, Option<(bool, u16)>)>,
    pub explicit_add: bool,
}

#[derive(Clone, Debug)]
pub struct RawFacts {
    pub shape: u8,
    pub id_mode: u8,
    pub nodes: Vec<RawNode>,
    pub version: (u16, u8, u8),
    pub recs: [Vec<RawRec>; 3],
    pub keys: Vec<u16>,
    pub dup_edges: Vec<u16>,
    pub dup_calls: Vec<u16>,
    pub dup_terms: Vec<u16>,
    pub detach_118: bool,
}

/// monotone index map (shrinks toward 0)
pub fn pick(p: u16, len: usize) -> usize {
    debug_assert!(len > 0);
    ((p as usize) * len) >> 16
}

fn ascii_name() -> impl Strategy<Value = String> {
    prop_oneof![
        6 => "[A-Za-z][A-Za-z0-9 ,'()/-]{0,18}",
        1 => Just(String::new()),
        1 => "[A-Z]{1,3}",
        2 => "[A-Za-z]{1,6}: [A-Za-z ]{1,8}",
        1 => "[A-Za-z]{1,4}: [a-z]{1,4}: [a-z]{0,4}",
        // words that are syntax somewhere in the three text formats or in their column values
        1 => proptest::sample::select(vec![
            "NOT", "OMIM", "ORPHA", "DECIPHER", "OMIM:1", "ORPHA:7", "HP:0000001", "is_a", "id", "name", "true", "false", "is_obsolete: true",
            "replaced_by: HP:0000118", "#", "#comment", "database_id", "ncbi_gene_id", "hpo_id", "-", "NA", "0", "Term", "data-version: hp/releases/2020-01-01",
            // conventions of real HPO releases that a loader might take for markup
            "obsolete Abnormality of x", "obsolete ", "obsolete", "Obsolete term", "All", "Phenotypic abnormality", "MOVED TO 123456", "REMOVED", "DEPRECATED", "HP:0000118 Phenotypic abnormality",
        ])
        .prop_map(str::to_string),
    ]
}

fn unicode_name() -> impl Strategy<Value = String> {
    vec(
        prop_oneof![
            3 => "[a-zA-Z ]{1,3}",
            1 => Just("é".to_string()),
            1 => Just("€".to_string()),
            1 => Just("😀".to_string()),
            1 => Just("ß".to_string()),
            1 => Just("漢".to_string()),
        ],
        1..8,
    )
    .prop_map(|v| v.concat())
}

/// names with control characters, separators and invisible characters (the Builder and the binary
/// format take any string; for the text loaders `expected_facts` replaces what a line-based
/// tab-separated file cannot carry)
fn control_name() -> impl Strategy<Value = String> {
    vec(
        prop_oneof![
            4 => "[a-zA-Z ]{1,3}",
            1 => Just("\t".to_string()),
            1 => Just("\n".to_string()),
            1 => Just("\r\n".to_string()),
            1 => Just("\0".to_string()),
            1 => Just("\u{1b}".to_string()),
            1 => Just("\u{7f}".to_string()),
            1 => Just("\u{85}".to_string()),
            1 => Just("\u{2028}".to_string()),
            1 => Just("\u{feff}".to_string()),
            1 => Just("\n\n".to_string()),
            1 => Just("\\".to_string()),
            1 => Just("\"".to_string()),
            1 => Just("!".to_string()),
            1 => Just("[Term]".to_string()),
        ],
        1..7,
    )
    .prop_map(|v| v.concat())
}

/// names with a byte length at or around the 255 byte limit
fn long_name() -> impl Strategy<Value = String> {
    (
        prop_oneof![Just(250usize), Just(253), Just(254), Just(255), Just(256), Just(257), Just(300), 240usize..270],
        // (white space as a unit: the 255-byte prefix then ends in a blank, a no-break or an ideographic space)
        prop_oneof![3 => Just("a"), 3 => Just("é"), 3 => Just("€"), 3 => Just("😀"), 1 => Just(" "), 1 => Just("w "), 1 => Just("\u{a0}"), 1 => Just("\u{3000}")],
        0usize..4,
        prop_oneof![Just("x"), Just("é"), Just("€"), Just("😀")],
    )
        .prop_map(|(target, unit, lead, tail)| {
            // `lead` ASCII bytes shift the alignment of multi-byte units against byte 255
            let mut s = "L".repeat(lead);
            while s.len() + unit.len() <= target {
                s.push_str(unit);
            }
            while s.len() < target {
                s.push('p');
            }
            s.push_str(tail);
            s
        })
}

pub fn name_strategy(mode: NameMode) -> BoxedStrategy<String> {
    match mode {
        NameMode::Plain => prop_oneof![10 => ascii_name(), 4 => unicode_name(), 1 => control_name()].boxed(),
        NameMode::Rich => prop_oneof![10 => ascii_name(), 6 => unicode_name(), 6 => long_name(), 1 => control_name()].boxed(),
        NameMode::Capped => prop_oneof![10 => ascii_name(), 6 => unicode_name(), 6 => long_name(), 1 => control_name()]
            .prop_map(|s| char_prefix(&s, 255).to_string())
            .boxed(),
    }
}

fn node_strategy(cfg: &GenCfg) -> impl Strategy<Value = RawNode> {
    let flags = cfg.flags;
    let dangling = cfg.dangling_repl;
    (
        prop_oneof![2 => Just(0u8), 11 => Just(1u8), 6 => Just(2u8), 2 => Just(3u8)],
        any::<[u16; 3]>(),
        any::<u32>(),
        name_strategy(cfg.names),
        proptest::bool::weighted(0.2),
        proptest::option::weighted(0.25, (0u8..4, any::<u16>())),
    )
        .prop_map(move |(nparents, picks, idr, name, obsolete, repl)| RawNode {
            nparents,
            picks,
            idr,
            name,
            obsolete: flags && obsolete,
            repl: if flags {
                repl.map(|(m, p)| (if !dangling && m == 2 { 0 } else { m }, p))
            } else {
                None
            },
        })
}

fn rec_strategy(cfg: &GenCfg) -> impl Strategy<Value = RawRec> {
    let min_links = usize::from(!cfg.empty_recs);
    (
        any::<u8>(),
        name_strategy(cfg.names),
        vec(
            (
                any::<u16>(),
                proptest::option::weighted(0.35, (any::<bool>(), any::<u16>())),
            ),
            min_links..5,
        ),
        proptest::bool::weighted(0.3),
    )
        .prop_map(|(idr, name, links, explicit_add)| RawRec {
            idr,
            name,
            links,
            explicit_add,
        })
}

pub fn raw_facts(cfg: &GenCfg) -> impl Strategy<Value = RawFacts> {
    let r = cfg.max_recs;
    // the three totals are biased to differ: independent sizes, often 0
    let nrec = move || prop_oneof![1 => Just(0usize), 5 => 0..=r];
    (
        (
            0u8..8,
            0u8..4,
            vec(node_strategy(cfg), cfg.min_terms..=cfg.max_terms),
            // (release versions: any year, with the borders 0 and 9999 and 65535 over-represented)
            (prop_oneof![8 => any::<u16>(), 1 => Just(0u16), 1 => Just(9999u16), 1 => Just(u16::MAX)], prop_oneof![6 => 0u8..13, 1 => any::<u8>()], prop_oneof![6 => 0u8..32, 1 => any::<u8>()]),
        ),
        (
            nrec().prop_flat_map({
                let c = cfg.clone();
                move |n| vec(rec_strategy(&c), n)
            }),
            nrec().prop_flat_map({
                let c = cfg.clone();
                move |n| vec(rec_strategy(&c), n)
            }),
            nrec().prop_flat_map({
                let c = cfg.clone();
                move |n| vec(rec_strategy(&c), n)
            }),
        ),
        (
            vec(any::<u16>(), 64),
            vec(any::<u16>(), 0..4),
            vec(any::<u16>(), 0..4),
            vec(any::<u16>(), 0..3),
            proptest::bool::weighted(0.1),
        ),
    )
        .prop_map(
            |((shape, id_mode, nodes, version), (g, o, p), (keys, dup_edges, dup_calls, dup_terms, detach_118))| RawFacts {
                shape,
                id_mode,
                nodes,
                version,
                recs: [g, o, p],
                keys,
                dup_edges,
                dup_calls,
                dup_terms,
                detach_118,
            },
        )
}

fn reorder<T: Clone>(v: &mut Vec<T>, keys: &[u16], salt: usize) {
    if keys.is_empty() || v.len() < 2 {
        return;
    }
    let mut idx: Vec<(u16, usize)> = (0..v.len())
        .map(|i| (keys[(i * 7 + salt) % keys.len()], i))
        .collect();
    idx.sort(); // stable w.r.t. original index on equal keys
    let old = v.clone();
    for (n, (_, i)) in idx.into_iter().enumerate() {
        v[n] = old[i].clone();
    }
}

/// The pure mapping raw → facts.
pub fn realise(raw: &RawFacts, cfg: &GenCfg) -> Facts {
    let n = raw.nodes.len();
    // ---- parent structure over node indices (parents always have a smaller index)
    let mut par: Vec<Vec<usize>> = vec![Vec::new(); n];
    // HP:0000001 is node `off`, HP:0000118 node `off + 1`. In one standard ontology of eight, HP:0000001 is not the
    // top of the graph: another term (node 0) is its parent.
    let off = usize::from(cfg.standard && n >= 3 && raw.keys.len() >= 64 && raw.keys[57] % 8 == 0);
    let first_free = if cfg.standard { (2 + off).min(n) } else { 0 };
    for i in 0..n {
        if cfg.standard && i == off {
            if off == 1 {
                par[1].push(0);
            }
            continue;
        }
        if cfg.standard && i == off + 1 {
            if !raw.detach_118 {
                par[i].push(off);
            }
            continue;
        }
        if i == 0 {
            continue;
        }
        let node = &raw.nodes[i];
        let mut ps: Vec<usize> = Vec::new();
        let shape = match cfg.shapes {
            Some(allowed) => allowed[raw.shape as usize % allowed.len()],
            None => raw.shape,
        };
        match shape {
            // chain with occasional extra edge
            1 => {
                ps.push(i - 1);
                if node.nparents >= 3 {
                    ps.push(pick(node.picks[0], i));
                }
            }
            // diamond ladder: layers of two nodes, each below both nodes of the previous layer
            2 => {
                let base = first_free;
                if i >= base + 2 {
                    let layer = (i - base) / 2;
                    let prev = base + (layer - 1) * 2;
                    ps.push(prev);
                    if prev + 1 < i {
                        ps.push(prev + 1);
                    }
                } else if i > 0 && cfg.standard {
                    ps.push(pick(node.picks[0], i));
                }
            }
            // wide fan below few hubs
            3 => {
                if node.nparents > 0 {
                    // 1-3 hubs; with a single hub it has more children than a group stores inline
                    let hubs = 1 + (raw.nodes[0].idr % 3) as usize;
                    ps.push(pick(node.picks[0], i.min(hubs)));
                }
            }
            // long chain plus shortcuts to a much higher ancestor
            4 => {
                ps.push(i - 1);
                if node.nparents >= 2 && i >= 3 {
                    ps.push(pick(node.picks[0], (i - 2).max(1)));
                }
            }
            // fan-in: the last term is a child of every earlier term below the first free
            // node (more parents than an id group stores inline when n > 31)
            5 if i == n - 1 && n > 3 => {
                for q in first_free.max(1)..i {
                    ps.push(q);
                }
            }
            // wide diamond: one hub, all middle terms directly below it, the last term below all
            // middle terms (many direct parents, very few higher ancestors)
            6 if n > 4 => {
                let hub = first_free.saturating_sub(1);
                if i == n - 1 {
                    for q in hub + 1..i {
                        ps.push(q);
                    }
                } else if i > hub && node.nparents > 0 {
                    ps.push(hub);
                }
            }
            // random
            _ => {
                for k in 0..(node.nparents as usize).min(3) {
                    ps.push(pick(node.picks[k], i));
                }
            }
        }
        ps.sort_unstable();
        ps.dedup();
        par[i] = ps;
    }
    // ---- ids
    let mut ids: Vec<u32> = Vec::with_capacity(n);
    let mut used: BTreeSet<u32> = BTreeSet::new();
    if cfg.standard {
        used.insert(1);
        used.insert(118);
    }
    // dense: rank of idr among the nodes
    let mut order: Vec<usize> = (0..n).collect();
    order.sort_by_key(|i| (raw.nodes[*i].idr, *i));
    let mut rank = vec![0usize; n];
    for (r, i) in order.iter().enumerate() {
        rank[*i] = r;
    }
    for i in 0..n {
        if cfg.standard && i == off {
            ids.push(1);
            continue;
        }
        if cfg.standard && i == off + 1 {
            ids.push(118);
            continue;
        }
        let idr = raw.nodes[i].idr;
        let mut id = match raw.id_mode {
            // dense from 1 (or from 0 when borders are allowed and idr is even)
            // (in one case of three the run of consecutive ids has exactly one hole)
            0 => {
                let hole = if raw.keys.len() >= 64 && raw.keys[56] % 3 == 0 && n >= 3 { 1 + raw.keys[55] as usize % (n - 1) } else { usize::MAX };
                rank[i] as u32 + u32::from(!(cfg.border_ids && raw.nodes[0].idr % 2 == 0)) + u32::from(rank[i] >= hole)
            }
            // dense block somewhere in the id space
            1 => 100 + rank[i] as u32 * 2 + (idr & 1),
            // sparse uniform
            2 => idr % ID_SPACE,
            // borders and neighbours
            _ => match idr % 8 {
                0 if cfg.border_ids => 0,
                1 if cfg.border_ids => ID_SPACE - 1,
                2 if cfg.border_ids => ID_SPACE - 2,
                3 => 2,
                4 => 117,
                5 => 119,
                // an alias of an id assigned earlier under a power-of-two or decimal radix (id + 2^16, + 10^6, ...)
                6 if !ids.is_empty() => {
                    let base = ids[(idr / 8) as usize % ids.len()];
                    let step = [1u32 << 16, 1_000_000, 1 << 20, 1 << 8, 10_000, 1 << 23][(idr / 64) as usize % 6];
                    base.wrapping_add(step) % ID_SPACE
                }
                _ => idr % ID_SPACE,
            },
        };
        while used.contains(&id) {
            id = (id + 1) % ID_SPACE;
        }
        used.insert(id);
        ids.push(id);
    }
    // ---- terms
    let mut terms: Vec<TermFact> = Vec::with_capacity(n);
    for i in 0..n {
        let node = &raw.nodes[i];
        let replacement = node.repl.and_then(|(mode, p)| match mode {
            // (id 0 cannot be a replacement: 0 encodes "none" in the binary format)
            1 => Some(ids[i]).filter(|r| *r != 0),
            2 => {
                // dangling: an id that is not a term (and not 0: 0 encodes "none" in the binary format)
                if p % 5 == 0 {
                    // beyond the id space: a replacement id is only stored, never resolved
                    Some([ID_SPACE, ID_SPACE + 1, 1 << 24, 1 << 31, u32::MAX - 1, u32::MAX][(p / 5) as usize % 6])
                } else {
                    let mut d = 1 + (p as u32) * 151 % (ID_SPACE - 1);
                    while used.contains(&d) || d == 0 {
                        d = d % (ID_SPACE - 1) + 1;
                    }
                    Some(d)
                }
            }
            _ => {
                let r = ids[pick(p, n)];
                if r == 0 {
                    None
                } else {
                    Some(r)
                }
            }
        });
        let name = if cfg.standard && i == off && node.name.is_empty() {
            "All".to_string()
        } else {
            node.name.clone()
        };
        terms.push(TermFact {
            id: ids[i],
            name,
            obsolete: node.obsolete,
            replacement,
        });
    }
    let mut edges: Vec<(u32, u32)> = Vec::new();
    for i in 0..n {
        for p in &par[i] {
            edges.push((ids[i], ids[*p]));
        }
    }
    for d in &raw.dup_edges {
        if !edges.is_empty() {
            let e = edges[pick(*d, edges.len())];
            edges.push(e);
        }
    }
    // ancestors / descendants over indices for "relative" links
    let mut anc: Vec<BTreeSet<usize>> = vec![BTreeSet::new(); n];
    for i in 0..n {
        let mut s = BTreeSet::new();
        for p in &par[i] {
            s.insert(*p);
            for a in &anc[*p] {
                s.insert(*a);
            }
        }
        anc[i] = s;
    }
    let mut desc: Vec<Vec<usize>> = vec![Vec::new(); n];
    for i in 0..n {
        for a in &anc[i] {
            desc[*a].push(i);
        }
    }
    // ---- records
    let mut recs: [Vec<RecFact>; 3] = Default::default();
    const REC_POOL: [u32; 8] = [1, 2, 3, 7, 118, 600_000, u32::MAX, 0];
    for k in 0..3 {
        let mut used_ids: BTreeSet<u32> = BTreeSet::new();
        for r in &raw.recs[k] {
            // shared small pool across kinds so the same number is a gene, an OMIM and an ORPHA id
            let mut id = if r.idr < 200 {
                REC_POOL[(r.idr % 8) as usize]
            } else {
                r.idr as u32 * 1000 + k as u32
            };
            while used_ids.contains(&id) {
                id = id.wrapping_add(1);
            }
            used_ids.insert(id);
            let mut ts: Vec<u32> = Vec::new();
            if n > 0 {
                for (p, rel) in &r.links {
                    let t = pick(*p, n);
                    ts.push(ids[t]);
                    if let Some((up, q)) = rel {
                        if *up {
                            let a: Vec<usize> = anc[t].iter().copied().collect();
                            if !a.is_empty() {
                                ts.push(ids[a[pick(*q, a.len())]]);
                            }
                        } else if !desc[t].is_empty() {
                            ts.push(ids[desc[t][pick(*q, desc[t].len())]]);
                        }
                    }
                }
            }
            recs[k].push(RecFact {
                id,
                name: r.name.clone(),
                terms: ts,
            });
        }
    }
    // two records of a kind under one name (two gene ids with the same symbol), in half of these cases on a common term
    if raw.keys.len() >= 64 && raw.keys[60] % 4 == 0 {
        let k = (raw.keys[59] % 3) as usize;
        if recs[k].len() >= 2 {
            recs[k][1].name = recs[k][0].name.clone();
            if raw.keys[58] % 2 == 0 {
                if let Some(t) = recs[k][0].terms.first().copied() {
                    recs[k][1].terms.insert(0, t);
                }
            }
        }
    }
    let mut f = Facts {
        // calendar-like versions keep a four-digit year; the Builder and the binary format take any (u16, u8, u8)
        version: if raw.version.1 > 12 || raw.version.2 > 31 { raw.version } else { (raw.version.0 % 10000, raw.version.1, raw.version.2) },
        terms,
        edges,
        recs,
        ann_calls: Vec::new(),
    };
    if cfg.bulk_recs && n > 0 && raw.keys.len() >= 64 && raw.keys[63] % 40 == 0 {
        // several hundred records of one kind: more than any 8-bit counter can hold
        let k = (raw.keys[62] % 3) as usize;
        let count = 256 + (raw.keys[61] % 90) as u32;
        for j in 0..count {
            let t = ids[pick(raw.keys[(j as usize) % 60].wrapping_mul(j as u16 | 1), n)];
            f.recs[k].push(RecFact { id: 1000 + j, name: format!("b{j}"), terms: vec![t] });
        }
        // and one record that is directly linked to every term
        f.recs[(k + 1) % 3].push(RecFact { id: 999, name: "everywhere".into(), terms: ids.clone() });
    }
    if !cfg.empty_recs {
        for k in 0..3 {
            f.recs[k].retain(|r| !r.terms.is_empty());
        }
    }
    // supply orders
    reorder(&mut f.terms, &raw.keys, 0);
    reorder(&mut f.edges, &raw.keys, 1);
    for k in 0..3 {
        reorder(&mut f.recs[k], &raw.keys, 2 + k);
    }
    let mut calls = f.canonical_ann_calls();
    // explicit add_* calls for records that also have terms
    for k in 0..3 {
        for (r, rr) in f.recs[k].clone().iter().zip(raw.recs[k].iter()) {
            if rr.explicit_add && !r.terms.is_empty() {
                calls.push(AnnCall {
                    kind: k as u8,
                    rec: r.id,
                    term: None,
                    alt_name: None,
                });
            }
        }
    }
    for d in &raw.dup_calls {
        if !calls.is_empty() {
            let c = calls[pick(*d, calls.len())].clone();
            calls.push(c);
        }
    }
    reorder(&mut calls, &raw.keys, 5);
    if cfg.alt_names && !raw.keys.is_empty() {
        // some calls spell the record name differently
        for (i, c) in calls.iter_mut().enumerate() {
            if raw.keys[(i * 5 + 3) % raw.keys.len()] % 4 == 0 {
                let base = f.rec_name(c.kind as usize, c.rec).to_string();
                c.alt_name = Some(format!("{base} (alias {})", i % 3));
            }
        }
    }
    f.ann_calls = calls;
    if cfg.dup_terms {
        for d in &raw.dup_terms {
            if !f.terms.is_empty() {
                let mut t = f.terms[pick(*d, f.terms.len())].clone();
                t.name = format!("dup-{}", t.name);
                if cfg.names == NameMode::Capped {
                    t.name = char_prefix(&t.name, 255).to_string();
                }
                f.terms.push(t);
            }
        }
    }
    f
}

pub fn facts(cfg: GenCfg) -> BoxedStrategy<Facts> {
    let c = cfg.clone();
    raw_facts(&cfg).prop_map(move |r| realise(&r, &c)).boxed()
}

/// A second, independent supply order of the same facts.
pub fn permuted(f: &Facts, keys: &[u16]) -> Facts {
    let mut g = f.clone();
    reorder(&mut g.terms, keys, 11);
    reorder(&mut g.edges, keys, 12);
    for k in 0..3 {
        reorder(&mut g.recs[k], keys, 13 + k);
        for (j, r) in g.recs[k].iter_mut().enumerate() {
            reorder(&mut r.terms, keys, 17 + j);
        }
    }
    reorder(&mut g.ann_calls, keys, 16);
    g
}

/// Labels describing the shape of a fact set (for the evidence histogram).
pub fn labels(f: &Facts, m: &Model) -> Vec<&'static str> {
    let mut l = Vec::new();
    if m.has_diamond() {
        l.push("diamond");
    }
    let depth = m.depth();
    if depth >= 3 {
        l.push("depth>=3");
    }
    if depth >= 6 {
        l.push("depth>=6");
    }
    if m.n_roots() > 1 {
        l.push("multiroot");
    }
    if m.anc.iter().any(|a| a.len() > 30) {
        // more ancestors than the id group stores inline
        l.push("ancestors>30");
    }
    if (0..m.len()).any(|i| m.parents[i].is_empty() && m.children[i].is_empty()) && m.len() > 1 {
        l.push("detached");
    }
    if m.has(0) {
        l.push("id0");
    }
    if m.has(1) && !m.parents[m.i(1)].is_empty() {
        l.push("HP:0000001-has-a-parent");
    }
    if m.has(ID_SPACE - 1) {
        l.push("id9999999");
    }
    if m.ids.iter().any(|i| *i > 100_000) {
        l.push("sparse-ids");
    }
    if m.parents.iter().any(|p| p.len() >= 2) {
        l.push("multi-parent");
    }
    if m.parents.iter().any(|p| p.len() > 30) {
        l.push("parents>30");
    }
    if m.children.iter().any(|p| p.len() > 30) {
        l.push("children>30");
    }
    if (0..m.len()).any(|i| m.parents[i].len() >= 5 && m.anc[i].len() - m.parents[i].len() <= m.parents[i].len() / 5) {
        // direct parents outnumber the higher ancestors at least 5:1
        l.push("many-parents-few-ancestors");
    }
    if (0..3).any(|k| m.direct[k].len() > 255) {
        l.push("records>255");
    }
    for k in 0..3 {
        if m.direct[k].is_empty() {
            l.push("empty-kind");
            break;
        }
    }
    if (0..3).any(|k| m.direct[k].values().any(|(_, t)| t.is_empty())) {
        l.push("rec-without-terms");
    }
    let sizes: BTreeSet<usize> = (0..3).map(|k| m.direct[k].len()).collect();
    if sizes.len() == 3 {
        l.push("totals-differ");
    }
    if f.terms.iter().any(|t| t.name.len() > 255) {
        l.push("name>255");
    }
    if f.terms.iter().any(|t| !t.name.is_ascii()) {
        l.push("multibyte-name");
    }
    if f.terms.iter().any(|t| t.name.len() > 255 && !t.name.is_char_boundary(255)) {
        l.push("multibyte@255");
    }
    if f.terms.iter().any(|t| t.obsolete) {
        l.push("obsolete");
    }
    if f.terms.iter().any(|t| t.replacement.is_some()) {
        l.push("replaced");
    }
    if f.terms.iter().any(|t| t.replacement.is_some_and(|r| r >= ID_SPACE)) {
        l.push("replacement-beyond-id-space");
    }
    if f.terms.iter().any(|t| t.replacement.is_some_and(|r| !m.has(r))) {
        l.push("dangling-replacement");
    }
    // a record linked to a term and to one of its ancestors
    'outer: for k in 0..3 {
        for (_, ts) in m.direct[k].values() {
            for t in ts {
                if m.has(*t) && ts.iter().any(|u| m.anc[m.i(*t)].contains(u)) {
                    l.push("link-on-term-and-ancestor");
                    break 'outer;
                }
            }
        }
    }
    // same record id in two kinds with different links
    'o2: for a in 0..3 {
        for b in a + 1..3 {
            for (id, (_, ta)) in &m.direct[a] {
                if let Some((_, tb)) = m.direct[b].get(id) {
                    if ta != tb {
                        l.push("same-id-two-kinds");
                        break 'o2;
                    }
                }
            }
        }
    }
    l
}
