#!/usr/bin/env python3
"""Regenerates MANIFEST.json from the table below (keeps the file valid at all times)."""
import json, sys

CHECKS = {
 # id: (category, technique, text, note, design_ref)
}

def add(pid, cat, technique, text, note, ref):
    # the notes give the bounds of the generated cases as first built; the sweeps, shapes and value classes added by
    # the sensitivity rounds are listed in DESIGN.md 9.2 / 9.4, and every evidence file states its current rule
    note = note + " Bounds given here are those of the generated cases as first built; fixed-size sweeps (more than 65 535 terms, chains of more than 255 links, more than 255 direct parents, ...) and the value classes added later are listed in DESIGN.md sections 9.2 and 9.4, and the `rule` field of the evidence file states what the check generates now."
    CHECKS[pid] = (cat, technique, text, note, ref)

exec(open('/verif/manifest_table.py').read())

props = [json.loads(l)['id'] for l in open('/verif/properties.jsonl')]
checks = []
na = []
for pid in props:
    if pid in CHECKS:
        cat, technique, text, note, ref = CHECKS[pid]
        checks.append({
            "property_id": pid,
            "quick_cmd": f"./check {pid} quick",
            "thorough_cmd": f"./check {pid} thorough",
            "evidence_file": f"/verif/evidence/{pid}.json",
            "replay_cmd_template": "./check --replay {path}",
            "engine": "hpo_verif",
            "level_claimed": {"category": cat, "text": text, "design_ref": ref},
            "level_note": note,
            "technique": technique,
        })
    else:
        na.append({"property_id": pid, "reason": NOT_CLAIMED.get(pid, "check not built yet in this round (property-based check planned in DESIGN.md section 4)")})

m = {
 "version": 1,
 "setup_cmd": "./setup.sh",
 "hooks": {
   "guard": "none (no hooks: every observation point is public API)",
   "enable": "not needed; checks build /repo as a plain path dependency",
   "baseline_off_cmd": "cd /repo && cargo test --workspace --no-fail-fast --offline --lib",
   "source_commits": [],
   "add_only": True,
 },
 "engines": [
   {"name": "hpo_verif", "path": "/verif/harness", "serves_properties": sorted(CHECKS.keys()),
    "kind_free_text": "Rust binary driving proptest 1.11 TestRunners (16 threads, fixed seeds, fixed work) against reference models, round trips, differentials and metamorphic relations; shrunk failures are written as JSON replay files"},
   {"name": "fuzz", "path": "/verif/fuzz", "serves_properties": FUZZ_PROPS,
    "kind_free_text": "cargo-fuzz/libFuzzer targets (thorough tier) that decode bytes into the same case types and call the same oracles"},
 ],
 "checks": checks,
 "notes": NOTES,
 "not_applicable": na,
}
json.dump(m, open('/verif/MANIFEST.json', 'w'), indent=1)
print("claimed:", len(checks), "not claimed:", len(na))
